"""C04 – the rule universe built by the searcher is faithful to the strategies.

Real searches (word universe with every pack feature: factories yielding strategies,
ready rules and foreign-parent rules, symmetries, inferral chains, prefix verification,
plus-mode unions with empty children; integer universes as strategies) under all rule
databases.  Deciding monitor: vmon.m_faithful, a listener on every `ruledb.add` call
(online) plus the comparison of the stored key set with the log (offline); the C15
contracts on ClassDB run alongside.
"""
from vdrive import searchlib
from vdrive.core import fp
from vmon import base, clock as vclock, m_classdb, m_faithful, m_ruledb, m_search, m_spec, m_table, rng as vrng
from vref import words as rw
from vuniv import gen, intuniv, table, words

PROPERTY = "C04"
LEVEL = "exploration"
RULE = (
    "case = one real search (word universe: class x pack x database x schedule - 8 % with a verification strategy whose rules have a child, run without asking for a specification -, or an integer universe "
    "as strategies x database) run to its end; every ruledb.add call is judged (parent label, child "
    "labels, re-applied strategy, pack membership, stored key / inserted forest keys, explicit empty "
    "rules) and at the end the stored key set is compared with the log. non-trivial = >= 10 recorded "
    "rules incl. an omitted empty child or a two-way key or a factory-made rule; distinct = case fingerprints"
)
LEVEL_TEXT = (
    "exploration: online assertions at the rule databases' client boundary against re-applied "
    "strategies, the brute-force emptiness oracle and a shadow label map, over real searches"
)
LEVEL_NOTE = "truth about emptiness of word classes comes from R-words; integer-universe classes carry their emptiness flag"
TECHNIQUE = "recording wrappers + online assertions at hooked state (ruledb.add listener), offline log check"
ASSUMPTIONS = ["strategies are deterministic", "the ClassDB contracts of C15 (installed here too) vouch for the label map"]
FLOORS = {
    "quick": {"nontrivial": 250, "counters": {"faithful.adds_checked": 7000, "faithful.keys_checked": 3000,
                                               "faithful.forest_keys_checked": 5000,
                                               "faithful.empty_children_omitted": 300,
                                               "faithful.forest_empty_rules": 220,
                                               "faithful.final_key_sets_compared": 200,
                                               "classdb.get_label_checked": 20000},
              "seen": {"faithful.strategy": 8}},
    "thorough": {"nontrivial": 6000, "counters": {"faithful.adds_checked": 140000, "faithful.keys_checked": 60000,
                                                   "faithful.forest_keys_checked": 100000,
                                                   "faithful.final_key_sets_compared": 4000},
                 "seen": {"faithful.strategy": 8}},
}
# W5: the repository's own test suite runs once under these ambient monitors (thorough tier)
W5_MONITORS = ['faithful', 'classdb']
CASE_TIMEOUT = {"quick": 60, "thorough": 120}
SIZES = {"quick": (600, 250), "thorough": (12000, 5000)}


def shard_setup(tier):
    searchlib.install_ambient()
    m_classdb.install()
    m_faithful.install()
    m_ruledb.CONFIG["check_has_spec"] = False
    m_ruledb.CONFIG["check_tree"] = False
    m_table.CONFIG["cap_rules"] = 0  # C03's oracle is not the subject here: sampled only
    m_table.CONFIG["every"] = 25


def gen_cases(tier, seed):
    nw, nt = SIZES[tier]
    k = 0
    i = 0
    produced = 0
    while produced < nw:
        rng = intuniv.rng_for(seed, "C04w", i)
        i += 1
        case = gen.rand_search_case(rng)
        if rw.is_empty(case["cls"]):
            continue
        if rng.random() < 0.5:
            case["pack"]["factory"] = rng.choice((0, 1, 2, 3, 4))
        drng = intuniv.rng_for(seed, "C04w/dep", i)
        if drng.random() < 0.08:
            # verification rules that have a child (a declared dependency): what the databases record
            # for them is judged here, whether or not a specification can use them
            case["pack"]["ver"] = drng.choice(("dep1", "dep2"))
            case["db"] = drng.choice(("forest", "forest", "base", "forget"))
        case["schedule"] = {"mode": rng.choice(("drain", "drain", "sliced", "levels")),
                            "costs": [rng.choice((0.001, 3.5))], "rng_seed": rng.randrange(10 ** 6),
                            "tree_k": 0, "perc": 1, "smallest": False}
        case["kind"] = "words"
        case["id"] = k
        k += 1
        produced += 1
        yield case
    for i in range(nt):
        rng = intuniv.rng_for(seed, "C04t", i)
        yield {"id": k, "kind": "table", "table": table.random_table(rng, p_empty=0.25),
               "db": rng.choice(gen.DBS), "root": 0, "rng_seed": rng.randrange(10 ** 6)}
        k += 1


def _truth_empty(c):
    if isinstance(c, words.WC):
        return rw.is_empty(rw.desc_of(c))
    return bool(c.is_empty())


def _finish(s, case):
    cx = base.ctx()
    db = s.ruledb
    m_faithful.final_check(db)
    sh = m_ruledb.shadow_of(db)
    st = m_faithful._state(db)
    n = len(sh.events)
    omitted = any(len(e["key_ends"]) < len(e["ends"]) for e in sh.events)
    two_way = any(e["two_way"] for e in sh.events)
    factory = case.get("pack", {}).get("factory") is not None
    cx.see("db", case["db"])
    return {"nontrivial": n >= 10 and (omitted or two_way or factory), "fingerprint": fp(case)}


def run_words(case):
    pack = gen.build_pack(case["pack"])
    m_spec.set_context(packs=[pack], enabled=False)
    m_faithful.CONFIG["truth_empty"] = _truth_empty
    if str(case["pack"]["ver"]).startswith("dep"):
        # no specification is asked for: the searcher records verification rules with a child but
        # cannot build specifications from them (it leaves the child without a rule and asserts);
        # what is judged here is every insertion
        s = gen.build_searcher(case)
    else:
        s = searchlib.run_search(case).searcher
    # keep expanding to the end of the (finite) universe so that every rule is seen
    for _ in range(3000):
        try:
            wp = next(s.classqueue)
        except StopIteration:
            break
        if case.get("expand_verified") or not s.ruledb.is_verified(wp.label):
            s._expand(s.classdb.get_class(wp.label), wp.label, wp.strategies, wp.inferral)
    return _finish(s, case)


def run_table(case):
    from comb_spec_searcher import CombinatorialSpecificationSearcher

    vrng.set_rng(vrng.ScriptedRNG(case["rng_seed"]))
    vclock.install(vclock.VirtualClock(), vclock.BudgetClock(2))
    pack = table.build_pack(case["table"], sets=2)
    m_spec.set_context(packs=[pack], enabled=False)
    m_faithful.CONFIG["truth_empty"] = None
    s = CombinatorialSpecificationSearcher(table.Lab(case["root"]), pack, ruledb=gen.build_db(case["db"]))
    for _ in range(600):
        try:
            wp = next(s.classqueue)
        except StopIteration:
            break
        s._expand(s.classdb.get_class(wp.label), wp.label, wp.strategies, wp.inferral)
    return _finish(s, case)


def run_case(case):
    m_ruledb.reset()
    m_faithful.reset()
    m_table.reset()
    m_classdb.reset()
    m_search.reset()
    try:
        return {"words": run_words, "table": run_table}[case["kind"]](case)
    finally:
        m_spec.set_context()
