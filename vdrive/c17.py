"""C17 – a search pickled or interrupted at any point resumes faithfully.

The clock of the search loop is virtual and ticks once per work packet, so
`auto_search(max_expansion_time=k-0.5)` is interrupted after exactly k packets, for every k.
Per case (word universe or integer universe as strategies, each rule database flavour,
compressed class database included):

  reference   fresh searcher, uninterrupted auto_search with single-packet slices
  interrupted fresh searcher, interrupted after k packets (ExceededMaxtimeError), pickled
              there; original and restored searcher are compared (==) and then both are
              given the same further calls (possibly interrupted again at further points)
Judged: restored == original (and the comparison does not raise); original and restored
execute the same packets, answer has_specification identically at every poll, and end with
the same class list, emptiness list, stored keys and verified set; interrupted + resumed
packets equal the reference's; the final outcome (specification / none) is the reference's
and every specification passes the C01 oracle and the C02 monitor.
"""
import pickle

from vdrive import searchlib
from vdrive.core import fp
from vmon import base, clock as vclock, m_search, m_spec, rng as vrng
from vref import words as rw
from vuniv import gen, intuniv, table, words

PROPERTY = "C17"
LEVEL = "exploration"
RULE = (
    "case = (universe: word class x pack, or integer table; rule database; interruption point k; "
    "further interruption points).  Three real searchers are run under a virtual clock: reference, "
    "interrupted-and-resumed, and the pickle-restored copy taken at the interruption; packet streams, "
    "poll answers and final state digests are compared, restored == original is evaluated, final "
    "specifications are judged by brute force. non-trivial = the search was really interrupted "
    "(ExceededMaxtimeError at packet k >= 1) before its universe was exhausted, with >= 5 packets left; "
    "distinct = case fingerprints"
)
LEVEL_TEXT = (
    "exploration: crash-point style sweep over interruption points made reachable by a virtual clock; "
    "trace and state-digest equality between original, restored and reference runs"
)
LEVEL_NOTE = (
    "specification *equality* between continuations is reported, not required (set iteration order may "
    "pick another explanation path); all three runs use the same slicing so that verification marks are "
    "taken at the same moments"
)
TECHNIQUE = "virtual-clock fault/interruption injection + recorded trace comparison + pickle round-trip equality"
ASSUMPTIONS = ["the searcher reads time only through the module attribute replaced by the virtual clock"]
N = {"quick": 6, "thorough": 8}
FLOORS = {
    "quick": {"nontrivial": 200, "counters": {"resume.interruptions": 300, "resume.pickles_compared": 400,
                                               "resume.packet_streams_compared": 700,
                                               "resume.final_digests_compared": 700},
              "seen": {"db": 4, "universe": 2}},
    "thorough": {"nontrivial": 5000, "counters": {"resume.interruptions": 7000, "resume.pickles_compared": 8000,
                                                   "resume.packet_streams_compared": 14000},
                 "seen": {"db": 4, "universe": 2}},
}
CASE_TIMEOUT = {"quick": 60, "thorough": 120}
SIZES = {"quick": 1300, "thorough": 20000}


def shard_setup(tier):
    searchlib.install_ambient()
    m_spec.install()


def gen_cases(tier, seed):
    i = 0
    produced = 0
    while produced < SIZES[tier]:
        rng = intuniv.rng_for(seed, "C17", i)
        i += 1
        if rng.random() < 0.65:
            case = gen.rand_search_case(rng, bytes_p=0.35)
            if rw.is_empty(case["cls"]):
                continue
            case["universe"] = "words"
        else:
            case = {"universe": "table", "table": table.random_table(rng, p_empty=0.15),
                    "db": rng.choice(gen.DBS), "iterative": rng.random() < 0.2}
            trng = intuniv.rng_for(seed, "C17/cycles", i)
            if trng.random() < 0.6:
                # directed cycles of one-way single-child rows: edges recorded before the
                # pickle, the cycle closed after it
                for _ in range(trng.randint(1, 2)):
                    table.add_one_way_cycle(trng, case["table"])
                if trng.random() < 0.4:
                    table.add_twin_unary_rows(trng, case["table"])
                case["cycles"] = True
                case["db"] = trng.choice(("base", "base", "forget", "forget", "forest"))
                case["iterative"] = False
        case["k"] = rng.choice((0, 1, 1, 2, 3, 4, 5, 6, 8, 10, 13, 17, 22, 30))
        case["further"] = sorted(rng.sample(range(1, 25), rng.choice((0, 0, 1, 2))))
        case["rng_seed"] = rng.randrange(10 ** 6)
        case["smallest"] = (case.get("pack", {}).get("iterative") is False or case["universe"] == "table"
                            and not case.get("iterative")) and rng.random() < 0.2
        if intuniv.rng_for(seed, "C17/mid", i).random() < 0.3:
            # time limit falling *inside* an expansion period of several packets
            mrng = intuniv.rng_for(seed, "C17/mid2", i)
            case["mid"] = {"costs": [mrng.choice((1.5, 2.5, 4.5, 9.5, 30.5)) for _ in range(mrng.randint(1, 3))],
                           "perc": mrng.choice((50, 100, 100)),
                           "limits": sorted(mrng.sample(range(1, 40), mrng.choice((1, 1, 2))))}
            if case["universe"] == "words" and mrng.random() < 0.3:
                # keeps expanding verified classes: the work must not depend on when it was polled
                case["expand_verified"] = True
        orng = intuniv.rng_for(seed, "C17/offset", i)
        if case["universe"] == "words" and orng.random() < 0.15 and not case["cls"].get("right") \
                and not case["cls"].get("flags"):
            case["label_offset"] = 300
            # ... with long equivalence chains (symmetry plus several inferral steps) and an
            # interruption early enough for the specification to be extracted after the restore
            from vdrive import c12

            case["pack"].update(sym=True, inferral=orng.sample(["minimise", "rename", "merge", "deadstat"], 3),
                                iterative=False, factory=None)
            case["cls"] = c12.add_redundant(case["cls"], orng)
            if len(case["cls"]["stats"]) < 2:
                case["cls"]["stats"] = [["r_1", case["cls"]["alphabet"][0]], ["r_0", case["cls"]["alphabet"][0]]]
            if case["pack"]["ver"] in ("libatom", "subatom"):
                case["pack"]["ver"] = "stat"  # the library's atom strategy refuses classes with statistics
            case["db"] = orng.choice(("base", "forget"))
            case["k"] = orng.choice((1, 2, 3, 4, 6, 8))
        case.update(id=produced, N=N[tier])
        produced += 1
        yield case


def run_mid(case, cx, words_universe):
    """The time limit runs out in the middle of an expansion period (periods of several work
    packets).  Judged: no work packet is lost between the queue and the expansion (ambient
    accounting of vmon.m_search), and the search, called again, ends as an uninterrupted one
    does: same outcome, correct specification."""
    from comb_spec_searcher.exception import ExceededMaxtimeError, SpecificationNotFound

    m_search.reset()
    ref = Run(build(case), case).go()
    mid = case["mid"]
    s = build(case)
    clk, _ = vclock.install(vclock.VirtualClock(), vclock.BudgetClock(1))
    vrng.set_rng(vrng.ScriptedRNG(case["rng_seed"]))
    sched = vclock.Schedule(clk, "sliced", mid["costs"], mid["perc"])
    st = m_search.attach(s, sched)
    outcome, spec, interruptions = None, None, 0
    for limit in list(mid["limits"]) + [None]:
        kwargs = {"perc": mid["perc"], "smallest": bool(case["smallest"])}
        if limit is not None:
            kwargs["max_expansion_time"] = limit + 0.5
        before = len(st.packets)
        try:
            spec = s.auto_search(**kwargs)
            outcome = "spec"
        except ExceededMaxtimeError:
            outcome = "interrupted"
            interruptions += 1
            cx.count("resume.midperiod_interruptions")
            cx.see("midperiod_packets_in_call", len(st.packets) - before)
        except SpecificationNotFound:
            outcome = "notfound"
        if outcome != "interrupted":
            break
    iterative = bool(case.get("pack", {}).get("iterative") or case.get("iterative"))
    # The outcome is compared in the word universe only.  In an integer universe a class can
    # be "verified" by pruning before all of its rows were tried; it is then not expanded any
    # further, and which of its rules (e.g. a two-way rule to a class without rules of its
    # own) are ever found depends on when has_specification was polled - the interrupted and
    # the reference run poll at different moments, legitimately.
    if words_universe and not iterative and outcome != ref.outcome:
        cx.violation("C17:resumed-diverges-from-reference:outcome",
                     f"search interrupted {interruptions}x inside an expansion period ends with {outcome}, "
                     f"the uninterrupted one with {ref.outcome}", None)
    if words_universe and outcome == "spec":
        searchlib.check_enumeration(spec, case["cls"], case["N"], mech="C17:final-specification-wrong-count")
        cx.count("resume.final_specs_judged")
    keep_verified = bool(case.get("expand_verified")) and not iterative and outcome != "interrupted"
    if (case["db"].startswith("forest") and not case.get("expand_verified")) or keep_verified:
        # Under the forest database "verified" means productive, which only depends on the rules
        # inserted so far - not on when has_specification was polled.  The universe explored up
        # to the moment the specification is found is then the same however the search was
        # sliced or interrupted: drain both searchers and compare what they know.
        # A search that keeps expanding verified classes (expand_verified=True) does the same
        # work whenever it was polled or interrupted, under every database.
        for srch in (s, ref.s):
            for _ in range(3000):
                try:
                    wp = next(srch.classqueue)
                except StopIteration:
                    break
                if keep_verified or not srch.ruledb.is_verified(wp.label):
                    srch._expand(srch.classdb.get_class(wp.label), wp.label, wp.strategies, wp.inferral)
        # compared up to the numbering of labels: extracting the specification labels classes
        # on its own (it re-applies strategies), and the two runs extract at different moments
        def rules_by_class(srch):
            d = digest(srch)
            name = d["classes"]
            out = set()
            for k in d["keys"]:
                kids = [name[c] for c in k[1]]
                if len(k) > 2 and isinstance(k[2], (list, tuple)) and len(k[2]) == len(kids):
                    # forest keys: children with their shifts, in an order that does not depend
                    # on how the run happened to number the classes
                    pairs = sorted(zip(kids, k[2]))
                    out.add((name[k[0]], tuple(p[0] for p in pairs), tuple(p[1] for p in pairs)) + tuple(k[3:]))
                else:
                    # the pruning databases sort the children of a key by label
                    out.add((name[k[0]], tuple(sorted(kids))) + tuple(k[2:]))
            return out

        ra, rr = rules_by_class(s), rules_by_class(ref.s)
        cx.count("resume.forest_universes_compared")
        if ra != rr:
            cx.violation("C17:interrupted-search-explores-another-universe",
                         f"after draining, the rules differ ({case['db']} database, expand_verified="
                         f"{bool(case.get('expand_verified'))}): only the interrupted search has "
                         f"{sorted(ra - rr)[:2]}, only the uninterrupted one {sorted(rr - ra)[:2]}", None)
    return {"nontrivial": interruptions >= 1 and len(st.packets) >= 6, "fingerprint": fp(case)}


def build(case):
    from comb_spec_searcher import CombinatorialSpecificationSearcher

    if case["universe"] == "words":
        s = gen.build_searcher(case)
        if case.get("label_offset"):
            # the class database already holds a few hundred classes (labels asked for earlier):
            # the labels of the search are large integers - after a pickle round trip equal labels
            # are no longer the same object
            root = s.classdb.get_class(s.start_label)
            if getattr(root, "right", None) is None:
                a = root.alphabet
                for i in range(case["label_offset"]):
                    word = "".join(a[int(d) % len(a)] for d in format(i, "o")) + a[0] * 12
                    s.classdb.get_label(root.with_(prefix=word, just_prefix=True, stats=(), proper=False, flags=""))
        return s
    pack = table.build_pack(case["table"], iterative=case["iterative"])
    return CombinatorialSpecificationSearcher(table.Lab(0), pack, ruledb=gen.build_db(case["db"]))


class Run:
    """One searcher driven by auto_search calls under a virtual clock with single-packet
    slices; `stops` are the cumulative packet counts at which it is interrupted."""

    def __init__(self, searcher, case):
        self.s = searcher
        self.case = case
        self.packets = []
        self.polls = []
        self.outcome = None
        self.spec = None
        self.interrupted = []

    def go(self, stops=()):
        from comb_spec_searcher.exception import ExceededMaxtimeError, SpecificationNotFound

        case = self.case
        for stop in list(stops) + [None]:
            clk, _ = vclock.install(vclock.VirtualClock(), vclock.BudgetClock(1))
            vrng.set_rng(vrng.ScriptedRNG(case["rng_seed"]))
            sched = vclock.Schedule(clk, "interrupt")
            st = m_search.attach(self.s, sched)
            n0, p0 = len(st.packets), len(st.spec_checks)
            kwargs = {"smallest": bool(case["smallest"])}
            if stop is not None:
                kwargs["max_expansion_time"] = stop - 0.5
            try:
                self.spec = self.s.auto_search(**kwargs)
                self.outcome = "spec"
            except ExceededMaxtimeError:
                self.outcome = "interrupted"
                self.interrupted.append(len(st.packets) - n0)
            except SpecificationNotFound:
                self.outcome = "notfound"
            self.packets.extend(st.packets[n0:])
            self.polls.extend(a for _, a in st.spec_checks[p0:])
            if self.outcome != "interrupted":
                break
        return self


def digest(s):
    n = len(s.classdb.label_to_info)
    classes = [repr(s.classdb.get_class(l)) for l in range(n)]
    empties = list(s.classdb.empty_list)
    db = s.ruledb
    if hasattr(db, "table_method"):
        keys = [tuple(k) for k in db.table_method._rules]
        keys = [(k[0], k[1], k[2], k[3].name) for k in keys]
    else:
        keys = sorted(db)
    verified = [bool(db.is_verified(l)) for l in range(n)]
    out = {"classes": classes, "empties": empties, "keys": keys, "verified": verified}
    eq = getattr(db, "equivdb", None)
    if eq is not None:
        # the equivalence partition after a cycle detection (final state only: this mutates)
        eq.connect_cycles()
        groups = {}
        for l in range(n):
            groups.setdefault(eq[l], []).append(l)
        out["equivalence_classes"] = sorted(groups.values())
    return out


def _truth_empty(c):
    if isinstance(c, words.WC):
        return rw.is_empty(rw.desc_of(c))
    return bool(c.is_empty())


def run_case(case):
    cx = base.ctx()
    words_universe = case["universe"] == "words"
    if words_universe:
        m_spec.set_context(packs=None, judge_productivity=True, truth_empty=_truth_empty)
    else:
        m_spec.set_context(packs=None, judge_productivity=case["db"].startswith("forest"), truth_empty=None)
    cx.see("db", case["db"])
    cx.see("universe", case["universe"])
    if case.get("cycles"):
        cx.count("resume.tables_with_one_way_cycles")
    try:
        if case.get("mid"):
            return run_mid(case, cx, words_universe)
        if case.get("cycles"):
            # small universes: every interruption point 1..12 is taken (the pickle must fall
            # between the first and the last edge of a cycle to matter)
            out = None
            for k in range(1, 13):
                r = _run(dict(case, k=k), cx, words_universe)
                if out is None or (r.get("nontrivial") and not out.get("nontrivial")):
                    out = r
            return out
        return _run(case, cx, words_universe)
    finally:
        m_spec.set_context()


def _run(case, cx, words_universe):
    m_search.reset()
    ref = Run(build(case), case).go()
    k = case["k"]
    orig = Run(build(case), case)
    if k > 0:
        orig.go_stops = [k]
    # interrupted run up to k
    from comb_spec_searcher.exception import ExceededMaxtimeError, SpecificationNotFound

    first = Run(orig.s, case)
    if k > 0:
        clk, _ = vclock.install(vclock.VirtualClock(), vclock.BudgetClock(1))
        vrng.set_rng(vrng.ScriptedRNG(case["rng_seed"]))
        st = m_search.attach(orig.s, vclock.Schedule(clk, "interrupt"))
        try:
            orig.spec = orig.s.auto_search(max_expansion_time=k - 0.5, smallest=bool(case["smallest"]))
            orig.outcome = "spec"
        except ExceededMaxtimeError:
            orig.outcome = "interrupted"
            cx.count("resume.interruptions")
            cx.see("interrupted_at", len(st.packets))
            if len(st.packets) != k:
                cx.violation("C17:interrupted-at-wrong-packet",
                             f"max_expansion_time={k - 0.5} with one tick per packet interrupted after {len(st.packets)} packets", None)
        except SpecificationNotFound:
            orig.outcome = "notfound"
        orig.packets = list(st.packets)
        orig.polls = [a for _, a in st.spec_checks]
    really_interrupted = orig.outcome == "interrupted"
    # pickle here
    try:
        blob = pickle.dumps(orig.s)
        restored_s = pickle.loads(blob)
    except Exception as e:  # noqa: BLE001
        cx.violation(f"C17:pickle-fails:{type(e).__name__}", f"pickling the searcher after {len(orig.packets)} packets: {e}", None)
    cx.count("resume.pickles_compared")
    try:
        same = (restored_s == orig.s) and (orig.s == restored_s)
    except Exception as e:  # noqa: BLE001
        cx.violation(f"C17:comparison-raises:{type(e).__name__}@{base.crash_site(e)}",
                     f"restored == original raised {type(e).__name__}: {str(e)[:200]}", None)
    if not same:
        parts = [name for name in ("classdb", "classqueue", "ruledb", "strategy_pack", "tried_to_verify",
                                   "symmetry_expanded", "inferral_expanded", "start_label", "expand_verified")
                 if getattr(orig.s, name) != getattr(restored_s, name)]
        cx.violation(f"C17:restored-searcher-unequal:{type(orig.s.ruledb).__name__}:{','.join(parts) or 'other'}",
                     f"pickle round trip after {len(orig.packets)} packets: restored != original (differs in {parts})", None)
    # continue both with the same further calls
    conts = []
    for who, s in (("original", orig.s), ("restored", restored_s)):
        run = Run(s, case)
        if orig.outcome in (None, "interrupted"):
            run.go(stops=case["further"])
        else:
            run.outcome, run.spec = orig.outcome, orig.spec
        conts.append(run)
    a, b = conts
    cx.count("resume.packet_streams_compared")
    if a.packets != b.packets:
        j = next((i for i, (x, y) in enumerate(zip(a.packets, b.packets)) if x != y), min(len(a.packets), len(b.packets)))
        cx.violation("C17:restored-diverges:packets",
                     f"original and restored searcher execute different work from continuation packet {j}: "
                     f"{a.packets[j:j + 2]} vs {b.packets[j:j + 2]}", {"k": len(orig.packets)})
    if a.polls != b.polls:
        cx.violation("C17:restored-diverges:has_specification",
                     f"has_specification answers differ: {a.polls[:20]} vs {b.polls[:20]}", None)
    if a.outcome != b.outcome:
        cx.violation("C17:restored-diverges:outcome", f"original ends with {a.outcome}, restored with {b.outcome}", None)
    da, db_ = digest(a.s), digest(b.s)
    cx.count("resume.final_digests_compared")
    for key in da:
        if da[key] != db_[key]:
            cx.violation(f"C17:restored-diverges:{key}", f"final {key} differ between original and restored", None)
    # interrupted + resumed == reference
    total = orig.packets + a.packets
    cx.count("resume.packet_streams_compared")
    if total != ref.packets:
        j = next((i for i, (x, y) in enumerate(zip(total, ref.packets)) if x != y), min(len(total), len(ref.packets)))
        cx.violation("C17:resumed-diverges-from-reference:packets",
                     f"interrupted at {len(orig.packets)} (+ further {case['further']}): packet {j} is "
                     f"{total[j:j + 1]} but the uninterrupted search does {ref.packets[j:j + 1]}; "
                     f"lengths {len(total)} vs {len(ref.packets)}", None)
    if a.outcome != ref.outcome:
        cx.violation("C17:resumed-diverges-from-reference:outcome",
                     f"resumed search ends with {a.outcome}, the uninterrupted one with {ref.outcome}", None)
    dr = digest(ref.s)
    cx.count("resume.final_digests_compared")
    for key in dr:
        if dr[key] != da[key]:
            cx.violation(f"C17:resumed-diverges-from-reference:{key}",
                         f"final {key} differ between the resumed and the uninterrupted search", None)
    # specifications
    if words_universe:
        for run in (a, b, ref):
            if run.outcome == "spec":
                searchlib.check_enumeration(run.spec, case["cls"], case["N"], mech="C17:final-specification-wrong-count")
                cx.count("resume.final_specs_judged")
    if a.outcome == "spec" and b.outcome == "spec":
        try:
            cx.count("resume.spec_equal" if a.spec == b.spec else "resume.spec_differs_reported_only")
        except Exception:  # noqa: BLE001
            cx.count("resume.spec_comparison_raised_reported_only")
    left = len(ref.packets) - len(orig.packets)
    return {"nontrivial": really_interrupted and left >= 5, "fingerprint": fp(case)}
