"""C08 – random sampling from a specification is exactly uniform.

All random decisions of the samplers are routed to a ScriptedRNG (vmon.rng).  Two monitors:

global  the driver enumerates *every* decision sequence of
        spec.random_sample_object_of_size(n, **p) (odometer over the recorded decision
        domains), accumulating the exact probability (Fractions) of each returned object;
        it must be 1/|objects| for each object of the brute-force set.  Leaf budget per
        (spec, n, p); over budget => only the local monitor decides (counted).
local   for every rule of the specification and every (n, p) with objects: the rule's
        sub-samplers are replaced by recording stubs and its top-level draw is forced
        through all values 1..count; the number of draws selecting each child (union) /
        each composition of sizes and parameters (product) must equal the number of
        objects it accounts for, by brute force.
refusal when there is no object of (n, p) the documented InvalidOperationError is raised.
"""
from collections import Counter
from fractions import Fraction

from vdrive import searchlib
from vdrive.core import fp
from vmon import base, rng as vrng
from vref import words as rw
from vuniv import gen, intuniv

PROPERTY = "C08"
LEVEL = "exploration"
RULE = (
    "case = one real search; for the returned specification, every size n <= N and every parameter "
    "tuple: (global) exhaustive enumeration of the sampler's decision tree with exact probabilities "
    "when it has <= budget leaves; (local) every rule's top-level draw forced through all values with "
    "recording sub-samplers; (refusal) empty (n, p) must raise InvalidOperationError. case kind forms = "
    "one generated class: every derived form (plain, equivalence, reverse of equivalence, paths forwards "
    "and backwards) of every strategy samples with its children bound to the truth (exact counts and "
    "terms, uniform samplers over the brute-force lists on the same scripted RNG) and the exact output "
    "distribution must be uniform on the parent's objects for every size <= 4 and parameter tuple. non-trivial = a "
    "recursive specification with >= 4 rules where >= 3 (n, p) distributions over >= 3 objects were "
    "enumerated exactly; distinct = case fingerprints"
)
LEVEL_TEXT = (
    "exploration with exact sub-results: the sampler's whole decision tree is enumerated (exact "
    "output distribution as Fractions) for small (n, p); per-rule draw partition checked for all"
)
LEVEL_NOTE = (
    "beyond the leaf budget only the per-rule monitor decides, which assumes the verification "
    "strategies' own samplers are exact (checked separately for the universe's samplers)"
)
TECHNIQUE = "scripted-RNG enumeration of the real sampler (exact distribution) + per-rule draw partition monitor"
ASSUMPTIONS = ["every random decision goes through the five hooked names (a run that draws 0 decisions is flagged)"]
N = {"quick": 5, "thorough": 6}
BUDGET = {"quick": 1500, "thorough": 6000}
FLOORS = {
    "quick": {"nontrivial": 40, "counters": {"sampling.distributions_enumerated": 1200,
                                              "sampling.distributions_enumerated_3plus_objects": 200,
                                              "sampling.leaves_enumerated": 60000,
                                              "sampling.local_draws_forced": 12000,
                                              "sampling.refusals_checked": 800,
                                              "sampling.form_distributions_enumerated": 5000},
              "seen": {"sampling.form": 5}},
    "thorough": {"nontrivial": 300, "counters": {"sampling.distributions_enumerated": 10000,
                                                  "sampling.distributions_enumerated_3plus_objects": 1500,
                                                  "sampling.leaves_enumerated": 1000000,
                                                  "sampling.local_draws_forced": 100000,
                                                  "sampling.refusals_checked": 6000,
                                                  "sampling.form_distributions_enumerated": 80000},
                 "seen": {"sampling.form": 5}},
}
CASE_TIMEOUT = {"quick": 90, "thorough": 300}
SIZES = {"quick": 300, "thorough": 2400}
FORM_CASES = {"quick": 300, "thorough": 5000}
# wall-clock budget per shard (cases beyond it are counted as truncated, not judged)
SHARD_BUDGET = {"thorough": 1500}


def shard_setup(tier):
    searchlib.install_ambient()


def gen_cases(tier, seed):
    i = 0
    produced = 0
    while produced < SIZES[tier]:
        rng = intuniv.rng_for(seed, "C08", i)
        i += 1
        case = gen.rand_search_case(rng, max_alpha=2 if rng.random() < 0.8 else 3)
        if str(case["pack"]["ver"]).startswith("searched"):
            # sampling a class verified that way runs a whole search (with its own random
            # choices, cached afterwards) inside one draw: the decision tree is not the same from
            # one enumeration pass to the next, so the exact-distribution oracle does not apply
            case["pack"]["ver"] = "prefix" + case["pack"]["ver"][8:]
        if intuniv.rng_for(seed, "C08/deadchild", i).random() < 0.12:
            # unions in which an earlier non-atom child does not carry a statistic that later
            # children do: after one letter only that letter may follow, the statistic counts
            # other letters (requests with a non-zero value must skip that child *and* its count)
            d = intuniv.rng_for(seed, "C08/deadchild2", i)
            first = d.choice("ab")
            others = [x for x in "abc" if x != first]
            pats = {first + x for x in others}
            if d.random() < 0.5:
                pats.add("".join(d.choice("abc") for _ in range(d.choice((2, 3)))))
            case["cls"] = {"prefix": d.choice(("", "", others[0], others[1])), "patterns": sorted(pats),
                           "alphabet": "abc", "just_prefix": False,
                           "stats": [["k_0", d.choice((others[0], others[1], "".join(others)))]]
                           + ([["k_1", first]] if d.random() < 0.3 else []),
                           "bytes": False, "proper": False, "right": None}
            case["pack"].update(dead=True, order=0, plus=d.random() < 0.3, factory=None, inferral=[], sym=False,
                                ver="stat", iterative=False)
            case["deadchild"] = True
        if intuniv.rng_for(seed, "C08/sharedstat", i).random() < 0.08:
            # a product of two non-atom factors in which two statistics of the parent agree on one
            # factor (a letter is forbidden there) and share one parameter of it, while they differ
            # on the other factor: compositions giving the two different shares must be rejected
            d = intuniv.rng_for(seed, "C08/sharedstat2", i)
            x, y = d.sample("ab", 2)
            left = {"prefix": d.choice(("", x)), "patterns": sorted({y} | ({x * 3} if d.random() < 0.4 else set())),
                    "alphabet": "ab", "just_prefix": False, "proper": False}
            stats = [["k_0", "ab"], ["k_1", x]] + ([["k_2", y]] if d.random() < 0.4 else [])
            right = {"prefix": "", "patterns": sorted({d.choice(("aa", "bb", "aba", "bab"))} if d.random() < 0.6 else set()),
                     "alphabet": "ab", "just_prefix": False, "stats": stats, "proper": False, "right": None}
            case["cls"] = dict(left, stats=stats, bytes=False, right=right)
            case["pack"].update(merge=True, swap=False, factory=None, inferral=[], sym=False, ver="stat",
                                iterative=False, dead=False)
        if rw.is_empty(case["cls"]):
            continue
        case["schedule"] = {"mode": "drain", "rng_seed": rng.randrange(10 ** 6), "tree_k": 1, "perc": 1,
                            "smallest": False}
        case.update(id=produced, N=N[tier], budget=BUDGET[tier])
        produced += 1
        yield case
    yield from gen_form_cases(tier, seed)


def gen_form_cases(tier, seed):
    for j in range(FORM_CASES[tier]):
        rng = intuniv.rng_for(seed, "C08f", j)
        cls = gen.rand_class(rng, bytes_p=0, pairs=0.05)
        cls["flags"] = ""
        if rng.random() < 0.6:
            cls["prefix"] = "".join(rng.choice(cls["alphabet"]) for _ in range(rng.randint(1, 2)))
        if rw.is_empty(cls):
            continue
        yield {"id": f"f{j}", "kind": "forms", "cls": cls, "seed": f"{seed}/C08f/{j}", "N": 4, "budget": 3000}


def enumerate_distribution(sample, budget):
    """Exact output distribution of the zero-argument callable `sample` whose randomness
    goes through vmon.rng.  Returns (dist or None if over budget, leaves)."""
    r = vrng.ScriptedRNG()
    vrng.set_rng(r)
    script = []
    dist = {}
    leaves = 0
    while script is not None:
        r.follow(script)
        obj = sample()
        dist[str(obj)] = dist.get(str(obj), Fraction(0)) + r.probability()
        leaves += 1
        if leaves > budget:
            return None, leaves
        script = vrng.next_script(r.trace)
    return dist, leaves


def check_global(spec, desc, n, p, params, truth_objs, budget):
    cx = base.ctx()
    dist, leaves = enumerate_distribution(lambda: spec.random_sample_object_of_size(n, **params), budget)
    cx.count("sampling.leaves_enumerated", leaves)
    if dist is None:
        cx.count("sampling.over_budget_local_only")
        return False
    cx.count("sampling.distributions_enumerated")
    want = {w: Fraction(1, len(truth_objs)) for w in truth_objs}
    if dist != want:
        bad = {k: str(v) for k, v in dist.items() if want.get(k) != v}
        missing = [w for w in want if w not in dist]
        cx.violation("C08:not-uniform",
                     f"size {n} params {params}: exact distribution differs from uniform 1/{len(truth_objs)}: "
                     f"{dict(list(bad.items())[:6])} never sampled {missing[:6]}",
                     {"n": n, "params": params, "dist": {k: str(v) for k, v in dist.items()}})
    if len(truth_objs) >= 3:
        cx.count("sampling.distributions_enumerated_3plus_objects")
    return len(truth_objs) >= 3


class _Stub:
    def __init__(self, idx, log):
        self.idx, self.log = idx, log

    def __call__(self, n, **params):
        self.log.append((self.idx, n, tuple(sorted(params.items()))))
        return ("stub", self.idx)


def check_local(rule, n, params):
    """Force the rule's top-level draw through 1..count and compare the partition."""
    from comb_spec_searcher.strategies.constructor import CartesianProduct, DisjointUnion

    cx = base.ctx()
    cons = rule.constructor
    if not isinstance(cons, (CartesianProduct, DisjointUnion)):
        return
    pdesc = rw.desc_of(rule.comb_class)
    names = rw.stat_names(pdesc)
    ptuple = tuple(params[k] for k in names)
    parent_objs = rw.objects_by_params(pdesc, n).get(ptuple, [])
    total = len(parent_objs)
    if total == 0:
        return
    kids = [rw.desc_of(c) for c in rule.children]

    def subrec(i):
        def rec(n, **p):
            knames = rw.stat_names(kids[i])
            return rw.terms(kids[i], n)[tuple(p[k] for k in knames)] if n >= 0 else 0

        return rec

    subrecs = tuple(subrec(i) for i in range(len(kids)))
    selected = Counter()
    r = vrng.ScriptedRNG()
    vrng.set_rng(r)
    for draw in range(total):
        log = []
        stubs = tuple(_Stub(i, log) for i in range(len(kids)))
        r.follow([draw])
        cons.random_sample_sub_objects(total, stubs, subrecs, n, **params)
        cx.count("sampling.local_draws_forced")
        if not r.trace or r.trace[0][0] != total:
            cx.violation("C08:top-level-draw-domain-wrong",
                         f"{type(cons).__name__}: first decision has domain {r.trace[:1]}, parent count {total}",
                         {"class": repr(rule.comb_class), "n": n, "params": params})
        selected[tuple(log)] += 1
    wit = {"class": repr(rule.comb_class), "strategy": repr(rule.strategy), "n": n, "params": params}
    if isinstance(cons, DisjointUnion):
        # how many objects of the parent each child accounts for: through the rule's own
        # forward map (validated by C07; unions such as symmetries are not the identity on
        # words); if the form has no maps, through the child's true count at the parameters
        # the sub-sampler was called with
        from vuniv.words import W

        try:
            owner = Counter()
            for w in parent_objs:
                parts = rule.forward_map(W(w))
                owner[[i for i, part in enumerate(parts) if part is not None][0]] += 1
        except NotImplementedError:
            owner = None
        for sel, k in selected.items():
            (i, cn, cparams), = sel
            if owner is not None:
                want = owner[i]
            else:
                d = dict(cparams)
                want = rw.terms(kids[i], cn)[tuple(d[x] for x in rw.stat_names(kids[i]))]
            if k != want:
                cx.violation("C08:union-draw-partition-wrong",
                             f"child {i} selected by {k} of {total} draws, it accounts for {want} objects", wit)
        chosen = {sel[0][0] for sel in selected}
        if owner is not None:
            for i in owner:
                if i not in chosen:
                    cx.violation("C08:union-child-never-selected",
                                 f"child {i} holds {owner[i]} objects but no draw selects it", wit)
    else:
        for sel, k in selected.items():
            want = 1
            for i, cn, cparams in sel:
                knames = rw.stat_names(kids[i])
                d = dict(cparams)
                want *= rw.terms(kids[i], cn)[tuple(d[x] for x in knames)]
            if k != want:
                cx.violation("C08:product-draw-partition-wrong",
                             f"composition {sel} selected by {k} of {total} draws, it accounts for {want} objects", wit)
    cx.count("sampling.local_rule_points_checked")


def run_forms(case):
    """Rule level, exact: every derived form of every strategy on a generated class samples
    with its children bound to the truth (exact counts, exact terms, uniform samplers over the
    brute-force object lists drawing from the same scripted RNG); the form's own decisions plus
    the children's are enumerated and the output distribution must be uniform on the parent's
    objects.  Reaches forms that searches rarely return (paths run backwards through inferral
    rules, where the constructor pins child statistics to fixed values)."""
    from vdrive import rulelib
    from vuniv.words import W

    cx = base.ctx()
    rng = intuniv.rng_for(case["seed"], "run")
    c = gen.build_class(case["cls"])
    todo = []
    for strat in rulelib.strategies_for(rng):
        if type(strat).__name__ == "TrackStat":
            # a union child with a parameter the parent lacks: outside the documented parameter
            # contract of DisjointUnion (its sampler cannot name a value for it); not judged
            cx.count("sampling.child_parameter_without_parent_not_judged")
            continue
        rule = rulelib.apply(strat, c)
        if rule is not None:
            todo.extend(rulelib.forms(rule))
    todo.extend(rulelib.chains(c, rng))
    derived = 0
    for name, form, reason in todo:
        if form is None:
            continue
        pdesc = rw.desc_of(form.comb_class)
        if rw.is_empty(pdesc):
            continue
        kids = [rw.desc_of(ch) for ch in form.children]
        knames = [rw.stat_names(k) for k in kids]
        rec = rulelib.Recorder(form)

        def subrec(i):
            return lambda n, **p: rw.terms(kids[i], n)[tuple(p[k] for k in knames[i])] if n >= 0 else 0

        def subsampler(i):
            def sample(n, **p):
                objs = rw.objects_by_params(kids[i], n).get(tuple(p[k] for k in knames[i]), [])
                return W(objs[vrng.RNG.randint(0, len(objs) - 1)])

            return sample

        form.subterms = tuple(rec.child(i) for i in range(len(kids)))
        form.subrecs = tuple(subrec(i) for i in range(len(kids)))
        form.subsamplers = tuple(subsampler(i) for i in range(len(kids)))
        names = rw.stat_names(pdesc)
        judged = 0
        try:
            for n in range(case["N"] + 1):
                for p, ws in rw.objects_by_params(pdesc, n).items():
                    params = dict(zip(names, p))
                    dist, leaves = enumerate_distribution(
                        lambda: form.random_sample_object_of_size(n, **params), case["budget"])
                    cx.count("sampling.leaves_enumerated", leaves)
                    if dist is None:
                        continue
                    cx.count("sampling.form_distributions_enumerated")
                    judged += 1
                    want = {w: Fraction(1, len(ws)) for w in ws}
                    if dist != want:
                        bad = {k: str(v) for k, v in dist.items() if want.get(k) != v}
                        cx.violation(f"C08:form-not-uniform:{name.split('[')[0]}:{type(form.constructor).__name__}",
                                     f"{name} of {form.strategy!r} on {form.comb_class!r}: size {n} params {params}: "
                                     f"distribution {dict(list(bad.items())[:5])} instead of uniform 1/{len(ws)}; "
                                     f"never sampled {[w for w in want if w not in dist][:5]}",
                                     {"n": n, "params": params})
        except NotImplementedError:
            cx.count("sampling.forms_without_sampler_not_judged")
            continue
        cx.see("sampling.form", name.split("[")[0])
        if judged and name != "plain":
            derived += 1
    return {"nontrivial": derived >= 2, "fingerprint": fp(case["cls"])}


def run_case(case):
    if case.get("kind") == "forms":
        return run_forms(case)
    from comb_spec_searcher.exception import InvalidOperationError
    from comb_spec_searcher.strategies.rule import Rule

    cx = base.ctx()
    res = searchlib.run_search(case)
    if res.outcome != "spec":
        return {"skip": "no specification"}
    spec = res.spec
    prof = searchlib.spec_profile(spec)
    desc = case["cls"]
    names = rw.stat_names(desc)
    exact = 0
    if intuniv.rng_for("C08/sanity", case["id"]).random() < 0.3:
        # the same specification object is sanity-checked first (that check samples with stand-in
        # samplers bound to brute force) and sampled afterwards
        try:
            spec.sanity_check(min(case["N"], 3))
            cx.count("sampling.specs_sanity_checked_first")
        except NotImplementedError:
            cx.count("sampling.sanity_check_not_implemented")
    try:
        for n in range(case["N"] + 1):
            by = rw.objects_by_params(desc, n)
            # refusal on an empty (n, p): impossible parameter values, or a size without objects
            refusals = []
            if names:
                refusals.append(dict(zip(names, (99,) * len(names))))
            elif not by:
                refusals.append({})
            for params in refusals:
                cx.count("sampling.refusals_checked")
                try:
                    obj = spec.random_sample_object_of_size(n, **params)
                    cx.violation("C08:no-refusal",
                                 f"size {n} params {params} has no object but {obj!r} was returned", {"n": n})
                except InvalidOperationError:
                    pass
                except Exception as e:  # noqa: BLE001
                    cx.violation("C08:no-refusal",
                                 f"size {n} params {params} has no object; instead of the documented "
                                 f"InvalidOperationError: {type(e).__name__}: {e}", {"n": n})
            for p, ws in by.items():
                params = dict(zip(names, p))
                if check_global(spec, desc, n, p, params, ws, case["budget"]):
                    exact += 1
            if len(names) >= 2:
                # the same requests once more on the same specification object with the keyword
                # arguments in the opposite order (keyword order must not matter; anything
                # remembered from the earlier requests is now in place)
                for p, ws in by.items():
                    params = dict(reversed(list(zip(names, p))))
                    cx.count("sampling.requests_with_reversed_keyword_order")
                    check_global(spec, desc, n, p, params, ws, case["budget"])
        # local monitor on every rule with word-class parent
        for cls, rule in list(spec.rules_dict.items()):
            if not isinstance(rule, Rule):
                continue
            rnames = rw.stat_names(rw.desc_of(cls))
            for n in range(min(case["N"], 5) + 1):
                for p in rw.objects_by_params(rw.desc_of(cls), n):
                    check_local(rule, n, dict(zip(rnames, p)))
    except NotImplementedError:
        cx.count("sampling.specs_not_sampling_not_judged")
        return {"skip": "specification cannot sample (reverse rule that is not an equivalence)"}
    finally:
        vrng.set_rng(vrng.ScriptedRNG(0))
    return {"nontrivial": prof["rules"] >= 4 and prof["recursive"] and exact >= 2, "fingerprint": fp(case)}
