"""C14 – default and memory-saving rule databases are observationally identical.

Real word-universe searches under the default RuleDB (prefix verification so that
verified classes could also be expanded by other strategies, factories incl. lazily
built and foreign-parent rules, symmetries, inferral chains); every insertion is mirrored
into a shadow RuleDBForgetStrategy and the two are compared after each one
(vmon.m_diff).  At the end every stored key's strategy is looked up in both.
"""
import random

from vdrive import searchlib
from vdrive.core import fp
from vmon import base, m_diff, m_ruledb, m_search
from vref import words as rw
from vuniv import gen, intuniv, words

PROPERTY = "C14"
LEVEL = "exploration"
RULE = (
    "case = one real word-universe search under the default rule database, run to the end of its "
    "universe; each ruledb.add is mirrored into a shadow memory-saving database and after every "
    "insertion has_specification, key sets, is_verified for all labels, contains() for stored / "
    "permuted / non-stored keys and the strategy look-up of the new key are compared; at the end every "
    "key's strategy is looked up in both. non-trivial = >= 12 insertions incl. a two-way key and a "
    "verified class another strategy could expand or a factory; distinct = case fingerprints"
)
LEVEL_TEXT = (
    "exploration: differential (lock-step) monitor of two implementations fed the same recorded "
    "insertion stream of real searches, compared after every insertion"
)
LEVEL_NOTE = "the shadow shares the class database of the search; membership truth is the key set both databases report"
TECHNIQUE = "differential runtime monitoring (mirrored insertions, state comparison after each)"
ASSUMPTIONS = ["strategies are deterministic (recomputation must find the same rule)"]
FLOORS = {
    "quick": {"nontrivial": 120, "counters": {"diff.insertions_compared": 7000, "diff.contains_checked": 200000,
                                               "diff.strategy_lookups_checked": 25000,
                                               "diff.is_verified_compared": 80000}},
    "thorough": {"nontrivial": 2000, "counters": {"diff.insertions_compared": 120000,
                                                   "diff.contains_checked": 3000000,
                                                   "diff.strategy_lookups_checked": 400000}},
}
CASE_TIMEOUT = {"quick": 90, "thorough": 180}
SIZES = {"quick": 1000, "thorough": 16000}


def shard_setup(tier):
    searchlib.install_ambient()
    m_diff.install()
    m_ruledb.CONFIG["check_has_spec"] = False
    m_ruledb.CONFIG["check_tree"] = False


def _truth_empty(c):
    if isinstance(c, words.WC):
        return rw.is_empty(rw.desc_of(c))
    return bool(c.is_empty())


def gen_cases(tier, seed):
    i = 0
    produced = 0
    while produced < SIZES[tier]:
        rng = intuniv.rng_for(seed, "C14", i)
        i += 1
        case = gen.rand_search_case(rng, max_alpha=2)
        if rw.is_empty(case["cls"]):
            continue
        case["db"] = "base"
        if rng.random() < 0.5:
            case["pack"]["ver"] = rng.choice(("prefix1", "prefix2"))
        case["schedule"] = {"mode": rng.choice(("drain", "sliced")), "costs": [rng.choice((0.001, 4.5))],
                            "rng_seed": rng.randrange(10 ** 6), "tree_k": 0, "perc": 1, "smallest": False}
        case["id"] = produced
        produced += 1
        yield case


def run_case(case):
    cx = base.ctx()
    m_ruledb.reset()
    m_diff.reset()
    m_search.reset()
    cx._diff_rng = random.Random(f"c14/{case['id']}")
    m_diff.CONFIG["truth_empty"] = _truth_empty
    m_diff.CONFIG["enabled"] = True
    try:
        res = searchlib.run_search(case)
        s = res.searcher
        for _ in range(1500):
            try:
                wp = next(s.classqueue)
            except StopIteration:
                break
            if case.get("expand_verified") or not s.ruledb.is_verified(wp.label):
                s._expand(s.classdb.get_class(wp.label), wp.label, wp.strategies, wp.inferral)
        pair = m_diff.pair_of(s.ruledb)
        if pair is None:
            return {"skip": "no insertion"}
        for key in sorted(set(s.ruledb)):
            m_diff.check_strategy(pair, key, {"final": True})
        sh = m_ruledb.shadow_of(s.ruledb)
        two_way = any(e["two_way"] for e in sh.events)
        rich = case["pack"]["ver"].startswith("prefix") or case["pack"]["factory"] is not None
        return {"nontrivial": pair.n >= 12 and two_way and rich, "fingerprint": fp(case)}
    finally:
        m_diff.CONFIG["enabled"] = False
