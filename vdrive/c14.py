"""C14 – default and memory-saving rule databases are observationally identical.

Real word-universe searches under the default RuleDB (prefix verification so that
verified classes could also be expanded by other strategies, factories incl. lazily
built and foreign-parent rules, symmetries, inferral chains); every insertion is mirrored
into a shadow RuleDBForgetStrategy and the two are compared after each one
(vmon.m_diff).  At the end every stored key's strategy is looked up in both.
"""
import random

from vdrive import searchlib
from vdrive.core import fp
from vmon import base, clock as vclock, m_diff, m_ruledb, m_search, rng as vrng
from vref import words as rw
from vuniv import gen, intuniv, table, words

PROPERTY = "C14"
LEVEL = "exploration"
RULE = (
    "case = one real word-universe search under the default rule database, run to the end of its "
    "universe; each ruledb.add is mirrored into a shadow memory-saving database and after every "
    "insertion has_specification, key sets, is_verified for all labels, contains() for stored / "
    "permuted / non-stored keys and the strategy look-up of the new key are compared (the handed-back strategy re-applied reproduces the key; for a single-child key in the same store of both databases it is one-way in one exactly when it is in the other); at the end every "
    "key's strategy is looked up in both. non-trivial = >= 12 insertions incl. a two-way key and a "
    "verified class another strategy could expand or a factory; case kind table = an integer universe "
    "as strategies (rule graphs the word universe cannot produce: one-way single-child rules, and a "
    "one-way and a two-way single-child rule between the same two classes in either arrival order) "
    "searched under the default database with the same mirroring; distinct = case fingerprints"
)
LEVEL_TEXT = (
    "exploration: differential (lock-step) monitor of two implementations fed the same recorded "
    "insertion stream of real searches, compared after every insertion"
)
LEVEL_NOTE = "the shadow shares the class database of the search; membership truth is the key set both databases report"
TECHNIQUE = "differential runtime monitoring (mirrored insertions, state comparison after each)"
ASSUMPTIONS = ["strategies are deterministic (recomputation must find the same rule)"]
FLOORS = {
    "quick": {"nontrivial": 120, "counters": {"diff.insertions_compared": 7000, "diff.contains_checked": 200000,
                                               "diff.strategy_lookups_checked": 25000,
                                               "diff.is_verified_compared": 80000,
                                               "c14.tables_with_one_and_two_way_rule_on_one_pair": 80}},
    "thorough": {"nontrivial": 2000, "counters": {"diff.insertions_compared": 120000,
                                                   "diff.contains_checked": 3000000,
                                                   "diff.strategy_lookups_checked": 400000}},
}
CASE_TIMEOUT = {"quick": 90, "thorough": 180}
SIZES = {"quick": 1000, "thorough": 16000}
TABLES = {"quick": 400, "thorough": 6000}


def shard_setup(tier):
    searchlib.install_ambient()
    m_diff.install()
    m_ruledb.CONFIG["check_has_spec"] = False
    m_ruledb.CONFIG["check_tree"] = False


def _truth_empty(c):
    if isinstance(c, words.WC):
        return rw.is_empty(rw.desc_of(c))
    return bool(c.is_empty())


def gen_cases(tier, seed):
    i = 0
    produced = 0
    while produced < SIZES[tier]:
        rng = intuniv.rng_for(seed, "C14", i)
        i += 1
        case = gen.rand_search_case(rng, max_alpha=2)
        if rw.is_empty(case["cls"]):
            continue
        case["db"] = "base"
        if rng.random() < 0.5:
            case["pack"]["ver"] = rng.choice(("prefix1", "prefix2"))
        nrng = intuniv.rng_for(seed, "C14/ne", i)
        if nrng.random() < 0.2:
            # two-way single-child rules that are not equivalences (can_be_equivalent False):
            # the letter symmetry on every class, or the removal of redundant patterns
            if nrng.random() < 0.5 and case["cls"].get("right") is None:
                case["pack"]["sym"] = "ne"
            else:
                from vdrive import c12

                case["pack"]["inferral"] = ["minimise_ne"] + [x for x in case["pack"]["inferral"] if x != "minimise"]
                case["cls"] = c12.add_redundant(case["cls"], nrng)
        case["schedule"] = {"mode": rng.choice(("drain", "sliced")), "costs": [rng.choice((0.001, 4.5))],
                            "rng_seed": rng.randrange(10 ** 6), "tree_k": 0, "perc": 1, "smallest": False}
        case["id"] = produced
        case["kind"] = "words"
        produced += 1
        yield case
    for k in range(TABLES[tier]):
        rng = intuniv.rng_for(seed, "C14/table", k)
        tb = table.add_twin_unary_rows(rng, table.random_table(rng))
        yield {"id": f"t{k}", "kind": "table", "table": tb, "root": rng.randrange(tb["n"]),
               "sets": rng.choice((1, 2)), "rng_seed": rng.randrange(10 ** 6)}


def run_table(case):
    """Integer universe as strategies under the default database, every insertion mirrored;
    tables carry one-way and two-way single-child rows between the same two labels."""
    from comb_spec_searcher import CombinatorialSpecificationSearcher
    from comb_spec_searcher.rule_db import RuleDB

    cx = base.ctx()
    m_ruledb.reset()
    m_diff.reset()
    m_search.reset()
    cx._diff_rng = random.Random(f"c14/{case['id']}")
    m_diff.CONFIG["truth_empty"] = _truth_empty
    m_diff.CONFIG["enabled"] = True
    try:
        vrng.set_rng(vrng.ScriptedRNG(case["rng_seed"]))
        vclock.install(vclock.VirtualClock(), vclock.BudgetClock(2))
        tb = case["table"]
        pack = table.build_pack(tb, sets=case["sets"])
        s = CombinatorialSpecificationSearcher(table.Lab(case["root"]), pack, ruledb=RuleDB())
        for _ in range(400):
            try:
                wp = next(s.classqueue)
            except StopIteration:
                break
            s._expand(s.classdb.get_class(wp.label), wp.label, wp.strategies, wp.inferral)
        pair = m_diff.pair_of(s.ruledb)
        if pair is None:
            return {"skip": "no insertion"}
        for key in sorted(set(s.ruledb)):
            m_diff.check_strategy(pair, key, {"final": True})
        sh = m_ruledb.shadow_of(s.ruledb)
        ways = {}
        for e in sh.events:
            if len(e["key_ends"]) == 1:
                ways.setdefault(frozenset((e["start"], e["key_ends"][0])), set()).add(bool(e["two_way"]))
        both = any(len(v) == 2 for v in ways.values())
        if both:
            cx.count("c14.tables_with_one_and_two_way_rule_on_one_pair")
        return {"nontrivial": pair.n >= 6 and both, "fingerprint": fp(case)}
    finally:
        m_diff.CONFIG["enabled"] = False


def run_case(case):
    if case.get("kind") == "table":
        return run_table(case)
    cx = base.ctx()
    m_ruledb.reset()
    m_diff.reset()
    m_search.reset()
    cx._diff_rng = random.Random(f"c14/{case['id']}")
    m_diff.CONFIG["truth_empty"] = _truth_empty
    m_diff.CONFIG["enabled"] = True
    try:
        res = searchlib.run_search(case)
        s = res.searcher
        for _ in range(1500):
            try:
                wp = next(s.classqueue)
            except StopIteration:
                break
            if case.get("expand_verified") or not s.ruledb.is_verified(wp.label):
                s._expand(s.classdb.get_class(wp.label), wp.label, wp.strategies, wp.inferral)
        pair = m_diff.pair_of(s.ruledb)
        if pair is None:
            return {"skip": "no insertion"}
        for key in sorted(set(s.ruledb)):
            m_diff.check_strategy(pair, key, {"final": True})
        sh = m_ruledb.shadow_of(s.ruledb)
        two_way = any(e["two_way"] for e in sh.events)
        rich = case["pack"]["ver"].startswith("prefix") or case["pack"]["factory"] is not None
        return {"nontrivial": pair.n >= 12 and two_way and rich, "fingerprint": fp(case)}
    finally:
        m_diff.CONFIG["enabled"] = False
