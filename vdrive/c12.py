"""C12 – a constructed bijection is a size-preserving bijection with a true inverse;
the isomorphism test is symmetric, and reflexive on atom-verified specifications.

Workload W2 – related pairs of specifications obtained from real searches:
  relabel    (c, c with the letters permuted)
  redundant  (c, c with redundant patterns added)
  repack     (c under pack P, c under a pack with permuted / split / atom-last children,
              plus-mode unions, equivalence paths on one side only)
  reload     (specification, its JSON reload)
  self       (specification, itself)
  unrelated  random pairs (negatives; ~2% are isomorphic by chance)
  finder     the pair returned by the parallel specification finder for (c, relabelled c)
             under packs with symmetries (atoms matched with classes equivalent to atoms)
Monitors: vmon.m_bijection (postconditions on Bijection.construct / from_dict and on
Isomorphism.check); the driver adds reflexivity.
"""
import json

from vdrive import searchlib
from vdrive.core import fp
from vmon import base, m_bijection
from vref import words as rw
from vuniv import gen, intuniv

PROPERTY = "C12"
LEVEL = "exploration"
RULE = (
    "case = a pair of real searches on related word classes (relabel / redundant patterns / different "
    "pack for the same class / JSON reload / self / unrelated / the same class with and without a statistic, so that only the parameter maps of the rules differ); Isomorphism.check is called both ways, "
    "Bijection.construct once each way, the bijection is serialised and reloaded; every returned "
    "bijection is checked pointwise against the brute-force object sets of both roots for all sizes "
    "<= N. non-trivial = a bijection was returned between specifications with >= 4 rules and a size "
    "with >= 3 objects (non-identity bijections are counted separately); distinct = case fingerprints"
)
LEVEL_TEXT = "exploration: brute-force postconditions on every bijection object the real code returns, symmetry/reflexivity of the isomorphism test"
LEVEL_NOTE = "only atoms are verified in these packs (the documented precondition for leaf matching); pairs where maps are not implemented are counted"
TECHNIQUE = "runtime contracts (icontract postconditions) against brute-force object sets"
ASSUMPTIONS = ["R-words"]
N = {"quick": 6, "thorough": 8}
FLOORS = {
    "quick": {"nontrivial": 100, "counters": {"bij.constructed_checked": 350, "bij.points_mapped": 20000,
                                               "iso.symmetry_checked": 900, "iso.answer_false": 60,
                                               "c12.reflexivity_checked": 500, "bij.loaded_checked": 150,
                                               "c12.non_identity_bijections": 15,
                                               "c12.bijections_through_multi_step_moving_path": 4}},
    "thorough": {"nontrivial": 1000, "counters": {"bij.constructed_checked": 3000, "bij.points_mapped": 600000,
                                                   "iso.symmetry_checked": 7000, "iso.answer_false": 700,
                                                   "c12.bijections_through_multi_step_moving_path": 30}},
}
# W5: the repository's own test suite runs once under these ambient monitors (thorough tier)
W5_MONITORS = ['bijection']
CASE_TIMEOUT = {"quick": 90, "thorough": 180}
SIZES = {"quick": 600, "thorough": 4000}
KINDS = ("relabel", "redundant", "repack", "repack", "reload", "self", "unrelated", "finder", "near", "symatom",
         "sympath", "sympath", "finder3", "finder3", "finder3", "rotated", "tracked")


def shard_setup(tier):
    searchlib.install_ambient()
    m_bijection.install()


def relabel(desc, rng):
    letters = list(desc["alphabet"])
    perm = letters[:]
    rng.shuffle(perm)
    tr = str.maketrans("".join(letters), "".join(perm))
    d = dict(desc)
    d["prefix"] = desc["prefix"].translate(tr)
    d["patterns"] = sorted(p.translate(tr) for p in desc["patterns"])
    d["stats"] = [[k, "".join(sorted(l.translate(tr)))] for k, l in desc["stats"]]
    return d


def add_redundant(desc, rng):
    d = dict(desc)
    pats = list(desc["patterns"])
    if pats:
        p = rng.choice(pats)
        extra = p + rng.choice(desc["alphabet"]) if rng.random() < 0.5 else rng.choice(desc["alphabet"]) + p
        d["patterns"] = sorted(set(pats + [extra]))
    return d


def near_miss(desc, rng):
    """Same class with one letter of one pattern (or of the prefix) changed: universes that
    match for a while and then fail."""
    d = dict(desc)
    pats = list(desc["patterns"])
    al = desc["alphabet"]
    if pats and (rng.random() < 0.7 or not desc["prefix"]):
        i = rng.randrange(len(pats))
        p = pats[i]
        j = rng.randrange(len(p))
        pats[i] = p[:j] + rng.choice([a for a in al if a != p[j]] or [p[j]]) + p[j + 1:]
        d["patterns"] = sorted(set(pats))
    else:
        d["patterns"] = sorted(set(pats + ["".join(rng.choice(al) for _ in range(rng.randint(2, 3)))]))
    return d


def atom_pack(rng, iterative=False):
    o = gen.rand_pack(rng, None, allow_iterative=False, allow_prefix_ver=False)
    o["ver"] = "stat"
    o["factory"] = rng.choice((None, None, 0, 1))
    return o


def gen_cases(tier, seed):
    i = 0
    produced = 0
    while produced < SIZES[tier]:
        rng = intuniv.rng_for(seed, "C12", i)
        i += 1
        kind = rng.choice(KINDS)
        c1 = gen.rand_class(rng, max_alpha=2 if rng.random() < 0.8 else 3, max_stats=rng.choice((0, 0, 1)), bytes_p=0)
        if rw.is_empty(c1):
            continue
        p1 = atom_pack(rng)
        if kind == "symatom":
            # letter-swap-invariant patterns and a non-empty prefix under a pack with the
            # symmetry: atoms of one side are matched with classes merely equivalent to atoms
            c1 = {"prefix": "".join(rng.choice("ab") for _ in range(rng.randint(1, 2))),
                  "patterns": rng.choice(([], ["aa", "bb"], ["ab", "ba"], ["aaa", "bbb"], ["aab", "bba"])),
                  "alphabet": "ab", "just_prefix": False, "stats": [], "bytes": False,
                  "proper": rng.random() < 0.5}
            if rw.is_empty(c1):
                continue
            p1.update(sym=True, layout="initial", factory=None, inferral=rng.choice(([], ["minimise"])))
            tr = str.maketrans("ab", "ba")
            c2 = dict(c1, prefix=c1["prefix"].translate(tr))
            p2 = dict(p1)
            kind = "finder"
        elif kind == "sympath":
            # letter-swap-invariant patterns with redundant extensions under a pack with the
            # symmetry and pattern minimisation: equivalence paths of several steps whose
            # first steps move the object (symmetry, then minimisation); the partner has the
            # minimal patterns and, half of the time, neither symmetry nor inferral
            tr = str.maketrans("ab", "ba")
            basis = rng.choice((["aa", "bb"], ["ab", "ba"], ["aaa", "bbb"], ["aab", "bba"], ["aba", "bab"]))
            extra = set()
            for _ in range(rng.randint(1, 2)):
                q = rng.choice(basis)
                q = q + rng.choice("ab") if rng.random() < 0.5 else rng.choice("ab") + q
                extra.update((q, q.translate(tr)))
            c1 = {"prefix": "".join(rng.choice("ab") for _ in range(rng.choice((0, 1, 1, 2)))),
                  "patterns": sorted(set(basis) | extra), "alphabet": "ab", "just_prefix": False,
                  "stats": [], "bytes": False, "proper": rng.random() < 0.3}
            if rw.is_empty(c1):
                continue
            p1.update(sym=True, inferral=["minimise"], factory=None)
            if rng.random() < 0.6:
                c2, p2 = relabel(c1, rng), dict(p1)  # the same structure on both sides
            else:
                c2 = dict(c1, patterns=sorted(basis))
                if rng.random() < 0.5:
                    c2 = relabel(c2, rng)
                p2 = dict(p1) if rng.random() < 0.5 else atom_pack(rng)
                if rng.random() < 0.5:
                    p2.update(sym=False, inferral=[])
            kind = rng.choice(("finder", "sympath", "sympath"))
        elif kind == "rotated":
            # negatives that differ only in the constructors: after the letter x only x may
            # follow, so C(x^k) = {x^k} + C(x^(k+1)) and C(x^(k+1)) = {x} x C(x^k) - the same
            # two-cycle entered at the union on one side and at the product on the other
            al = rng.choice(("ab", "ab", "abc"))
            x = rng.choice(al)
            pats = {x + y for y in al if y != x}
            if rng.random() < 0.4:
                pats.add("".join(rng.choice(al) for _ in range(rng.choice((2, 3)))))
            k = rng.choice((1, 1, 2))
            c1 = {"prefix": x * (k + 1), "patterns": sorted(pats), "alphabet": al, "just_prefix": False,
                  "stats": [], "bytes": False, "proper": False, "right": None}
            c2 = dict(c1, prefix=x * k)
            if rw.is_empty(c1) or rw.is_empty(c2):
                continue
            p1.update(sym=False, inferral=[], factory=None, plus=False, twice=[], layout="initial", dead=False,
                      split=rng.random() < 0.5)
            p2 = dict(p1, split=False, order=rng.choice((0, 1, 2)))
            kind = "near"
        elif kind == "finder3":
            # three letters, the symmetry and two-step expansions (rules with 5-6 children): the
            # matcher backtracks a lot, so matches accepted under the hypothesis that an
            # ancestor pair matches meet ancestors that fail later
            pats = set()
            for _ in range(rng.choice((1, 2, 2, 3))):
                pats.add("".join(rng.choice("abc") for _ in range(rng.choice((2, 3, 3)))))
            c1 = {"prefix": "".join(rng.choice("abc") for _ in range(rng.choice((0, 0, 1)))),
                  "patterns": sorted(pats), "alphabet": "abc", "just_prefix": False, "stats": [],
                  "bytes": False, "proper": False, "right": None}
            if rw.is_empty(c1):
                continue
            p1.update(sym=True, twice=rng.choice(([1], [0], [0, 1])), factory=None, dead=False, merge=False)
            c2, p2 = relabel(c1, rng), dict(p1)
            kind = "finder"
        elif kind == "finder":
            p1["sym"] = True
            c2, p2 = relabel(c1, rng), dict(p1)
        elif kind == "relabel":
            c2, p2 = relabel(c1, rng), (dict(p1) if rng.random() < 0.6 else atom_pack(rng))
        elif kind == "redundant":
            c2, p2 = add_redundant(c1, rng), dict(p1)
            p2["inferral"] = ["minimise"]
        elif kind == "near":
            c2, p2 = near_miss(c1, rng), dict(p1)
            if rw.is_empty(c2):
                continue
        elif kind == "repack":
            c2, p2 = dict(c1), atom_pack(rng)
        elif kind == "tracked":
            # the same words class without statistics on one side, with one or two on the other:
            # two specifications of the same shape whose rules differ only in the parameters they
            # pass down (the answer has to be the same in both directions)
            c1 = dict(c1, stats=[])
            letters = "".join(sorted(set(rng.choice(c1["alphabet"]) for _ in range(rng.randint(1, 2)))))
            c2 = dict(c1, stats=[["k_0", letters]] + ([["k_1", rng.choice(c1["alphabet"])]] if rng.random() < 0.3 else []))
            p1 = dict(p1, ver="stat", drop=False, dead=False, merge=False,
                      inferral=[x for x in p1["inferral"] if x == "minimise"])
            p2 = dict(p1)
            if len(c1["alphabet"]) >= 2 and rng.random() < 0.6:
                # ... and so that everything below the rules matches: the statistic counts a letter
                # that is forbidden outright and the atoms shed it (drop), so the two sides have
                # equal atoms and differ only in the parameter maps of their rules
                x = rng.choice(c1["alphabet"])
                c1 = dict(c1, patterns=sorted(set(c1["patterns"]) | {x}))
                if x in c1["prefix"]:
                    c1["prefix"] = ""
                c2 = dict(c1, stats=[["k_0", x]])
                p1 = dict(p1, drop=True)
                p2 = dict(p1)
            if rw.is_empty(c1) or rw.is_empty(c2):
                continue  # (forbidding one more letter can leave nothing: empty classes are not pair material)
            if rng.random() < 0.5:
                c1, c2 = c2, c1
        elif kind in ("reload", "self"):
            c2, p2 = dict(c1), dict(p1)
        else:
            c2 = gen.rand_class(rng, max_alpha=2, max_stats=0, bytes_p=0)
            p2 = atom_pack(rng)
            if rw.is_empty(c2):
                continue
        db = rng.choice(("base", "base", "forget", "forest"))
        yield {"id": produced, "kind": kind, "c1": c1, "p1": p1, "c2": c2, "p2": p2, "db": db,
               "seed": rng.randrange(10 ** 6), "N": N[tier]}
        produced += 1


def _search(cls, pack, db, seed):
    case = {"cls": cls, "pack": pack, "db": db,
            "schedule": {"mode": "drain", "rng_seed": seed, "tree_k": 1, "perc": 1, "smallest": False}}
    res = searchlib.run_search(case)
    return res.spec if res.outcome == "spec" else None


def all_atoms(spec):
    from comb_spec_searcher.strategies.rule import VerificationRule

    return all(c.is_atom() or c.is_empty() for c, r in spec.rules_dict.items() if isinstance(r, VerificationRule))


def build_pair(case):
    """The two specifications of a pair case, or a string saying why there are none."""
    from comb_spec_searcher import CombinatorialSpecification

    if case["kind"] == "finder":
        from comb_spec_searcher.bijection import ParallelSpecFinder

        try:
            out = ParallelSpecFinder(
                gen.build_searcher({"cls": case["c1"], "pack": case["p1"], "db": "base"}),
                gen.build_searcher({"cls": case["c2"], "pack": case["p2"], "db": "base"})).find()
        except (ValueError, AssertionError):
            out = None  # the finder's own behaviour is C13's subject
        if out is None:
            return "finder returned no pair"
        s1, s2 = out
    else:
        s1 = _search(case["c1"], case["p1"], case["db"], case["seed"])
        if s1 is None:
            return "no specification"
    if case["kind"] == "finder":
        pass
    elif case["kind"] == "self":
        s2 = s1
    elif case["kind"] == "reload":
        s2 = CombinatorialSpecification.from_dict(json.loads(json.dumps(s1.to_jsonable())))
    else:
        s2 = _search(case["c2"], case["p2"], case["db"], case["seed"] + 1)
        if s2 is None:
            return "no specification"
    return s1, s2


def run_case(case):
    from comb_spec_searcher.isomorphism import Bijection, Isomorphism
    from vuniv.words import W

    cx = base.ctx()
    m_bijection.CONFIG["N"] = case["N"]
    pair = build_pair(case)
    if isinstance(pair, str):
        return {"skip": pair}
    s1, s2 = pair
    cx.see("pair_kind", case["kind"])
    for n in range(case["N"] + 1):  # force lazily added empty rules on both sides
        s1.get_terms(n)
        s2.get_terms(n)
    # reflexivity on atom-verified specifications
    for s in (s1, s2):
        if all_atoms(s):
            cx.count("c12.reflexivity_checked")
            if not Isomorphism.check(s, s):
                cx.violation("C12:isomorphism-check-not-reflexive",
                             f"check(s, s) is False for an atom-verified specification of {s.root!r}", None)
    iso = Isomorphism.check(s1, s2)  # postcondition: symmetric
    b12 = Bijection.construct(s1, s2)  # postcondition: true bijection
    b21 = Bijection.construct(s2, s1)
    if (b12 is not None) != bool(iso) or (b21 is not None) != bool(iso):
        cx.violation("C12:construct-disagrees-with-check",
                     f"check = {iso}, construct(a,b) {'returned' if b12 is not None else 'None'}, "
                     f"construct(b,a) {'returned' if b21 is not None else 'None'}", None)
    nontrivial = False
    if b12 is not None:
        cx.count("c12.bijections_" + case["kind"])
        if searchlib.moving_paths(s1) or searchlib.moving_paths(s2):
            cx.count("c12.bijections_through_multi_step_moving_path")
        try:
            Bijection.from_dict(json.loads(json.dumps(b12.to_jsonable())))  # postcondition
            ident = all(str(b12.map(W(w))) == w for n in range(min(case["N"], 5) + 1)
                        for w in rw.objects(case["c1"], n))
            big = any(len(rw.objects(case["c1"], n)) >= 3 for n in range(case["N"] + 1))
            prof = searchlib.spec_profile(s1)
            nontrivial = big and prof["rules"] >= 4
            if not ident:
                cx.count("c12.non_identity_bijections")
        except NotImplementedError:
            cx.count("c12.maps_not_implemented_not_judged")
    return {"nontrivial": nontrivial, "fingerprint": fp(case)}
