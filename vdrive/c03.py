"""C03 – forest productivity detection equals the least fixed point, in any insert order.

Workload: W3 integer universes (random + hostile shapes), every multiset inserted into the
real TableMethod in many orders (all permutations when <= 5 rules).  The deciding monitor
is the icontract postcondition on TableMethod.add_rule_key (vmon.m_table), evaluated after
*every* insertion of every order; the driver adds the cross-order comparison of the final
state and the pumping_subuniverse/stable_subset views.
"""
from vdrive.core import fp
from vmon import base, m_table
from vref import lfp as rlfp
from vuniv import intuniv

PROPERTY = "C03"
LEVEL = "exploration"
RULE = (
    "case = one multiset of forest rule keys (2-15 rules over <= 8 labels, arity 0-3 with "
    "repeated children, shifts in -3..3, random or hostile shape) inserted into the real "
    "TableMethod in several orders (all distinct permutations when <= 5 rules); after every "
    "insertion the reported function is compared with the independent least fixed point. Case kind forestdb = an integer universe as real rule objects (reversible rows, verification rows) inserted into RuleDBForest(reverse=True) in seven orders; is_verified for every label and has_specification must agree between the orders, and the verified set only grows. The "
    "thorough tier adds a small-scope exhaustive layer: every multiset of 1-3 rules over two labels "
    "(arity <= 2, shifts -1..1), every pair of rules over three labels, every pair over two labels "
    "with shifts -2..2, all distinct insertion orders each (about 175 000 multisets). "
    "non-trivial = the final least fixed point has at least one infinite and one finite "
    "non-zero value, or an infinite value reached through a negative shift; distinct = "
    "distinct multiset fingerprints"
)
LEVEL_TEXT = (
    "exploration: an independent least-fixed-point oracle is evaluated as an icontract "
    "postcondition of the real TableMethod.add_rule_key after every single insertion, over "
    "generated and hand-shaped rule multisets in many insertion orders (all permutations for "
    "small multisets); held = no disagreement on any observed prefix"
)
LEVEL_NOTE = (
    "trusts the gap lemma behind the oracle's truncation (argued in DESIGN.md section 3 and "
    "cross-checked on every case by a lemma-free capped iteration); says nothing about "
    "universes larger than those generated"
)
TECHNIQUE = "runtime contract (icontract postcondition + class invariant) against a reference model"
DESIGN_REF = "DESIGN.md section 4, C03"
ASSUMPTIONS = [
    "gap lemma (DESIGN.md section 3) for the truncated Kleene iteration; cross-checked per "
    "insertion against a lemma-free capped iteration, disagreement makes the case inconclusive",
    "labels are small non-negative integers, as produced by ClassDB",
]
FLOORS = {
    "quick": {"nontrivial": 150, "counters": {"table.lfp_compared": 20000,
                                               "table.lfp_compared_with_finite_nonzero": 2000,
                                               "function.invariant_evaluated": 1000,
                                               "c03.order_pairs_compared": 2000}},
    "thorough": {"nontrivial": 2000, "counters": {"table.lfp_compared": 400000,
                                                   "table.lfp_compared_with_finite_nonzero": 40000,
                                                   "function.invariant_evaluated": 1000,
                                                   "c03.order_pairs_compared": 40000,
                                                   "c03.exhaustive_multisets": 175000}},
}
# W5: the repository's own test suite runs once under these ambient monitors (thorough tier)
W5_MONITORS = ['table']
CASE_TIMEOUT = {"quick": 60, "thorough": 600}
SIZES = {"quick": 1400, "thorough": 30000}
EXHAUSTIVE = {"quick": False, "thorough": False}  # the exhaustive layer covers a small scope only


def shard_setup(tier):
    m_table.install(function_invariant=True)


def gen_cases(tier, seed):
    for i in range(SIZES[tier]):
        rng = intuniv.rng_for(seed, "C03", i)
        if i % 3 == 0:
            rules = intuniv.hostile_universe(rng)
            shape = "hostile"
        else:
            rules = intuniv.random_universe(rng)
            shape = "random"
        yield {"id": i, "shape": shape, "rules": rules, "order_seed": f"{seed}/C03/o/{i}"}
    # the database level: real rule objects (integer universes as strategies, reversible rows,
    # verification rows) inserted into RuleDBForest(reverse=True) in several orders
    from vuniv import table

    for i in range(SIZES[tier] // 4):
        rng = intuniv.rng_for(seed, "C03/db", i)
        tb = table.random_table(rng, p_empty=0.1)
        if rng.random() < 0.5:
            # more reversible wide rows (their reverse keys are what the database adds on its own)
            for row in tb["rows"]:
                if len(row[1]) >= 2 and rng.random() < 0.6:
                    row[4] = True
        yield {"id": f"d{i}", "kind": "forestdb", "table": tb, "order_seed": f"{seed}/C03/db/o/{i}"}
    if tier == "thorough":
        yield from gen_exhaustive()


def small_rules(labels=2, max_arity=2, shifts=(-1, 0, 1)):
    """Every rule over `labels` labels with arity <= max_arity and shifts from `shifts`."""
    import itertools

    out = []
    for p in range(labels):
        for arity in range(max_arity + 1):
            for cs in itertools.product(range(labels), repeat=arity):
                for sh in itertools.product(shifts, repeat=arity):
                    out.append([p, list(cs), list(sh), "VERIFICATION" if arity == 0 else "NORMAL"])
    return out


def gen_exhaustive(block=400):
    """Small-scope exhaustive layer (thorough tier): every multiset of 1-3 rules over two
    labels (arity <= 2, shifts in -1..1), every pair of rules over three labels, and every
    pair over two labels with shifts in -2..2 - each inserted in all of its distinct orders."""
    import itertools

    k, cur = 0, []
    # scopes: (labels, max arity, shifts, multiset sizes)
    scopes = ((2, 2, (-1, 0, 1), (1, 2, 3)),   # 86 rules: 113 563 multisets
              (3, 2, (-1, 0, 1), (2,)),         # 273 rules: 37 401 pairs
              (2, 2, (-2, -1, 0, 1, 2), (2,)))  # 222 rules: 24 753 pairs
    for labels, arity, shifts, sizes in scopes:
        rules = small_rules(labels, arity, shifts)
        for size in sizes:
            for combo in itertools.combinations_with_replacement(range(len(rules)), size):
                cur.append([rules[i] for i in combo])
                if len(cur) == block:
                    yield {"id": f"x{k}", "kind": "exhaustive", "multisets": cur}
                    k, cur = k + 1, []
    if cur:
        yield {"id": f"x{k}", "kind": "exhaustive", "multisets": cur}


def _key(rule):
    from comb_spec_searcher.typing import ForestRuleKey, RuleBucket

    p, cs, sh, b = rule
    return ForestRuleKey(p, tuple(cs), tuple(sh), RuleBucket[b])


def run_forestdb(case):
    """RuleDBForest.add / is_verified / has_specification: the same rules in different orders.
    Judged: what the database reports as verified depends on the set of rules only, and only
    grows while rules are added (no oracle needed: the runs are compared with each other)."""
    from comb_spec_searcher import CombinatorialSpecificationSearcher
    from comb_spec_searcher.rule_db import RuleDBForest

    from vuniv import table

    cx = base.ctx()
    tb = case["table"]
    rng = intuniv.rng_for(case["order_seed"])
    rows = [i for i, r in enumerate(tb["rows"])]
    orders = [list(rows), list(reversed(rows))]
    for _ in range(3):
        o = list(rows)
        rng.shuffle(o)
        orders.append(o)
    # verification rows last / first: a parent that is already verified when its wide rule arrives
    orders.append(sorted(rows, key=lambda i: len(tb["rows"][i][1]) == 0))
    orders.append(sorted(rows, key=lambda i: len(tb["rows"][i][1]) != 0))
    finals = []
    for order in orders:
        m_table.reset()
        pack = table.build_pack(tb)
        db = RuleDBForest(reverse=True)
        s = CombinatorialSpecificationSearcher(table.Lab(0), pack, ruledb=db)
        labels = [s.classdb.get_label(table.Lab(x, x in tb["empties"])) for x in range(tb["n"])]
        ver = table.TableVer([r[0] for r in tb["rows"] if len(r[1]) == 0])
        before = set()
        for i in order:
            row = tb["rows"][i]
            parent = table.Lab(row[0], row[0] in tb["empties"])
            if parent.empty:
                continue
            if len(row[1]) == 0:
                rule = ver(parent)
            else:
                rule = table.TableStrategy(tb["rows"], i, tb["empties"])(parent)
            ends = tuple(s.classdb.get_label(c) for c in rule.children)
            db.add(s.classdb.get_label(parent), ends, rule)
            cx.count("c03.database_insertions")
            now = {lab for lab in labels if db.is_verified(lab)}
            if not before <= now:
                cx.violation("C03:database-verified-set-shrinks",
                             f"after inserting row {i} the labels {sorted(before - now)} are no longer verified",
                             {"table": tb, "order": order})
            before = now
        finals.append((frozenset(before), bool(db.has_specification())))
        cx.count("c03.database_orders_run")
    for other, order in zip(finals[1:], orders[1:]):
        cx.count("c03.database_order_pairs_compared")
        if other != finals[0]:
            cx.violation("C03:database-order-dependent",
                         f"the same rules inserted in another order: verified {sorted(finals[0][0])} / specification "
                         f"{finals[0][1]} versus verified {sorted(other[0])} / specification {other[1]}",
                         {"table": tb, "orders": [orders[0], order]})
    some = finals[0][0]
    return {"nontrivial": 0 < len(some) < tb["n"] and any(r[4] and len(r[1]) >= 2 for r in tb["rows"]),
            "fingerprint": fp(tb)}


def run_case(case):
    if case.get("kind") == "forestdb":
        return run_forestdb(case)
    if case.get("kind") == "exhaustive":
        nt = False
        for j, rules in enumerate(case["multisets"]):
            r = run_case({"id": f"{case['id']}/{j}", "shape": "exhaustive", "rules": rules, "order_seed": "x"})
            nt = nt or r["nontrivial"]
            base.ctx().count("c03.exhaustive_multisets")
        return {"nontrivial": nt, "fingerprint": fp(case["id"])}
    from comb_spec_searcher.rule_db.forest import TableMethod

    cx = base.ctx()
    rules = case["rules"]
    rng = intuniv.rng_for(case["order_seed"])
    if "orders" in case:
        orders, exhaustive = case["orders"], False
    else:
        orders, exhaustive = intuniv.orders(rng, rules)
    triples = [(r[0], tuple(r[1]), tuple(r[2])) for r in rules]
    ref = rlfp.lfp(triples)
    finals = []
    for order in orders:
        m_table.reset()
        tm = TableMethod()
        for i in order:
            tm.add_rule_key(_key(rules[i]))  # postcondition evaluated here
        got = m_table.reported(tm, ref.keys())
        finals.append(got)
        # derived views must agree with the function
        stable = set(tm.stable_subset())
        want_stable = {lab for lab, v in ref.items() if v is None}
        if stable != want_stable:
            cx.violation("C03:stable-subset-wrong",
                         f"stable_subset={sorted(stable)} expected {sorted(want_stable)}",
                         {"rules": rules, "order": order})
        sub = sorted((k.parent, k.children, k.shifts) for k in tm.pumping_subuniverse())
        want_sub = sorted(t for t in triples if t[0] in want_stable and set(t[1]) <= want_stable)
        if sub != want_sub:
            cx.violation("C03:pumping-subuniverse-wrong",
                         f"pumping_subuniverse={sub} expected {want_sub}",
                         {"rules": rules, "order": order})
        cx.count("c03.orders_run")
    for other in finals[1:]:
        cx.count("c03.order_pairs_compared")
        if other != finals[0]:
            cx.violation("C03:order-dependent",
                         f"two insertion orders disagree: {finals[0]} vs {other}",
                         {"rules": rules, "orders": orders})
    if exhaustive:
        cx.count("c03.multisets_with_all_permutations")
    has_inf = any(v is None for v in ref.values())
    has_fin = any(v not in (None, 0) for v in ref.values())
    neg_inf = has_inf and any(x < 0 for t in triples for x in t[2] if ref[t[0]] is None)
    cx.see("shape", case.get("shape", "?"))
    cx.see("n_rules", len(rules))
    cx.see("max_abs_shift", max([0] + [abs(x) for t in triples for x in t[2]]))
    return {"nontrivial": (has_inf and has_fin) or neg_inf,
            "fingerprint": fp(sorted(map(repr, rules)))}
