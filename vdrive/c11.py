"""C11 – forest extraction returns a minimal, closed, productive rule set.

Workloads:
  int    – integer universes with random bucket assignment in which the root pumps,
           inserted (in random order) into a real TableMethod exposed through a stub
           database; the real ForestRuleExtractor is constructed on it.
  table  – integer universes wrapped as real strategies and searched with the real
           searcher + RuleDBForest(reverse on/off); extraction and rule recomputation
           (`rules()`, `_find_rule`) run for real.
  words  – real word-universe searches under RuleDBForest(reverse on/off), with
           symmetries / one-sided universes so that reverse keys are sometimes required.
Deciding monitor: vmon.m_forest postconditions on ForestRuleExtractor.__init__ and
_find_rule (R-lfp oracle, |needed|+2 evaluations per extraction).
"""
from vdrive import searchlib
from vdrive.core import fp
from vmon import base, m_forest, m_ruledb, m_search, m_table, clock as vclock, rng as vrng
from vref import lfp as rlfp
from vref import words as rw
from vuniv import gen, intuniv, table

PROPERTY = "C11"
LEVEL = "exploration"
RULE = (
    "case kinds: int = random multiset of forest keys with buckets (2-16 keys, <= 8 labels) in which "
    "the root is productive, inserted in a random order, real extractor run on it; table = integer "
    "universe as strategies searched under RuleDBForest, extraction + rule recomputation; words = "
    "real word search under RuleDBForest(reverse on/off), followed by expand_verified on the result (fresh forest databases seeded with the rules of the specification, judged by the same monitors). Every extraction is judged: subset, "
    "productive, one key per class, closed, single-removal minimal, reverse keys only when needed. "
    "non-trivial = an extraction of >= 3 keys out of > needed inserted keys; distinct = case fingerprints"
)
LEVEL_TEXT = (
    "exploration: least-fixed-point oracle as postcondition of the real ForestRuleExtractor on "
    "generated universes (direct, via table strategies, via real searches)"
)
LEVEL_NOTE = "minimality is single-removal minimality, as stated; R-lfp trusted as in C03"
TECHNIQUE = "runtime postconditions against the least-fixed-point reference model"
ASSUMPTIONS = ["R-lfp (see C03)"]
FLOORS = {
    "quick": {"nontrivial": 400, "counters": {"forest.extractions_checked": 900,
                                               "forest.single_removals_checked": 3000,
                                               "forest.extractions_with_reverse_key": 40,
                                               "forest.found_rules_checked": 500}},
    "thorough": {"nontrivial": 8000, "counters": {"forest.extractions_checked": 18000,
                                                   "forest.extractions_with_reverse_key": 800,
                                                   "forest.found_rules_checked": 10000}},
}
# W5: the repository's own test suite runs once under these ambient monitors (thorough tier)
W5_MONITORS = ['forest']
CASE_TIMEOUT = {"quick": 60, "thorough": 120}
SIZES = {"quick": (1500, 500, 250), "thorough": (30000, 10000, 5000)}


def shard_setup(tier):
    searchlib.install_ambient()
    m_forest.install()
    m_table.CONFIG["cap_rules"] = 30


class _Stub:
    def __init__(self, tm):
        self.table_method = tm


def gen_cases(tier, seed):
    ni, nt, nw = SIZES[tier]
    k = 0
    i = 0
    produced = 0
    while produced < ni:
        rng = intuniv.rng_for(seed, "C11i", i)
        i += 1
        rules = intuniv.random_universe(rng, nrules=rng.randint(3, 16), max_shift=rng.choice((1, 2)),
                                        min_shift=-rng.choice((0, 0, 1)))
        if rng.random() < 0.5:
            rules.append([rng.randrange(4), [], [], "VERIFICATION"])
        root = rng.randrange(3)
        triples = [(r[0], tuple(r[1]), tuple(r[2])) for r in rules]
        if not rlfp.productive_for(triples, root):
            continue
        order = list(range(len(rules)))
        rng.shuffle(order)
        yield {"id": k, "kind": "int", "rules": rules, "root": root, "order": order}
        k += 1
        produced += 1
    for i in range(nt):
        rng = intuniv.rng_for(seed, "C11t", i)
        yield {"id": k, "kind": "table", "table": table.random_table(rng, p_empty=0.1),
               "reverse": rng.random() < 0.7, "root": 0, "rng_seed": rng.randrange(10 ** 6)}
        k += 1
    i = 0
    produced = 0
    while produced < nw:
        rng = intuniv.rng_for(seed, "C11w", i)
        i += 1
        case = gen.rand_search_case(rng, allow_iterative=False)
        if rw.is_empty(case["cls"]):
            continue
        case["db"] = rng.choice(("forest", "forest", "forest_norev"))
        case["pack"]["sym"] = rng.random() < 0.6
        if str(case["pack"]["ver"]).startswith("prefix"):
            case["pack"]["nest"] = intuniv.rng_for(seed, "C11w/nest", i).choice((0, 1, 1, 2))
        case["schedule"] = {"mode": rng.choice(("drain", "sliced")), "costs": [rng.choice((0.001, 2.5))],
                            "rng_seed": 0, "tree_k": 0, "perc": 1, "smallest": False}
        case["kind"] = "words"
        case["id"] = k
        k += 1
        produced += 1
        yield case


def run_int(case):
    from comb_spec_searcher.rule_db.forest import ForestRuleExtractor, TableMethod
    from comb_spec_searcher.typing import ForestRuleKey, RuleBucket

    cx = base.ctx()
    rules = case["rules"]
    base_order = list(case["order"])
    # the same multiset in several insertion histories: the random one, its reverse, and
    # grouped ones in which the reverse-bucket rules arrive before / after everything else
    # (a class may then pump through a reverse rule long before its reverse-free rule shows up)
    rank_first = {"VERIFICATION": 0, "REVERSE": 1, "EQUIV": 2, "NORMAL": 3}
    rank_last = {"VERIFICATION": 0, "EQUIV": 1, "NORMAL": 2, "REVERSE": 3}
    orders = [base_order, base_order[::-1],
              sorted(base_order, key=lambda i: rank_first.get(rules[i][3], 2)),
              sorted(base_order, key=lambda i: rank_last.get(rules[i][3], 2))]
    seen, nontrivial = set(), False
    for order in orders:
        if tuple(order) in seen:
            continue
        seen.add(tuple(order))
        m_table.reset()
        tm = TableMethod()
        for i in order:
            p, cs, sh, b = rules[i]
            tm.add_rule_key(ForestRuleKey(p, tuple(cs), tuple(sh), RuleBucket[b]))
        ex = ForestRuleExtractor(case["root"], _Stub(tm), None, None)  # postcondition evaluated
        ex.check()
        cx.count("c11.histories_extracted")
        nontrivial = nontrivial or (len(ex.needed_rules) >= 3 and len(rules) > len(ex.needed_rules))
    return {"nontrivial": nontrivial, "fingerprint": fp([case["rules"], case["root"]])}


def run_table(case):
    from comb_spec_searcher import CombinatorialSpecificationSearcher
    from comb_spec_searcher.rule_db import RuleDBForest
    from comb_spec_searcher.rule_db.forest import ForestRuleExtractor

    cx = base.ctx()
    m_table.reset()
    m_ruledb.reset()
    vrng.set_rng(vrng.ScriptedRNG(case["rng_seed"]))
    vclock.install(vclock.VirtualClock(), vclock.BudgetClock(2))
    pack = table.build_pack(case["table"])
    db = RuleDBForest(reverse=case["reverse"])
    s = CombinatorialSpecificationSearcher(table.Lab(case["root"]), pack, ruledb=db)
    n_ex = 0
    needed = 0
    for _ in range(400):
        try:
            wp = next(s.classqueue)
        except StopIteration:
            break
        s._expand(s.classdb.get_class(wp.label), wp.label, wp.strategies, wp.inferral)
        if db.has_specification() and n_ex < 3:
            if n_ex == 0:
                list(db.get_specification_rules())  # public route, first time (postcondition)
                cx.count("c11.public_extractions")
            ex = ForestRuleExtractor(s.start_label, db, s.classdb, pack)
            ex.check()
            list(ex.rules(()))  # recomputes every rule: _find_rule postcondition
            n_ex += 1
            needed = max(needed, len(ex.needed_rules))
    if not n_ex:
        return {"skip": "root never productive"}
    # the public route, twice: rules inserted among already productive classes in between must
    # be taken into account by the second extraction
    list(db.get_specification_rules())
    cx.count("c11.public_extractions")
    return {"nontrivial": needed >= 3, "fingerprint": fp(case)}


def run_words(case):
    cx = base.ctx()
    m_table.reset()
    m_ruledb.reset()
    m_search.reset()
    res = searchlib.run_search(case)
    if res.outcome != "spec":
        return {"skip": "no specification"}
    prof = searchlib.spec_profile(res.spec)
    # keep exploring, then ask the same database again
    s = res.searcher
    for _ in range(intuniv.rng_for("c11w", case["id"]).randint(1, 12)):
        try:
            wp = next(s.classqueue)
        except StopIteration:
            break
        s._expand(s.classdb.get_class(wp.label), wp.label, wp.strategies, wp.inferral)
    list(s.ruledb.get_specification_rules())
    cx.count("c11.public_extractions")
    # rule objects that were keyed for this database inserted into fresh forest databases
    # (that is what expanding verified classes does, once per class and round): the same
    # monitors judge every one of those databases
    from comb_spec_searcher.exception import InvalidOperationError
    from comb_spec_searcher.strategies.rule import VerificationRule

    def offers_pack(rule):
        try:
            rule.pack()
        except InvalidOperationError:
            return False
        return True

    if any(isinstance(r, VerificationRule) and offers_pack(r) for r in res.spec.rules_dict.values()):
        res.spec.expand_verified()
        cx.count("c11.expansions_through_fresh_forest_databases")
    return {"nontrivial": prof["rules"] >= 3, "fingerprint": fp(case)}


def run_case(case):
    return {"int": run_int, "table": run_table, "words": run_words}[case["kind"]](case)
