"""C16 – the work queue schedules every class completely, once, in order, and terminates.

Workload W4: operation histories on a real DefaultQueue built over packs of opaque
strategy tokens (0-2 inferral, 0-3 initial, 0-3 expansion sets of 0-3 strategies), 1-12
labels: duplicate adds while a label is mid-level, stops arriving while work is staged,
stop-then-add, not-inferrable before/after staging, interleaved next / do_level, repeated
polling after exhaustion.  Deciding monitor: vmon.m_queue (recording wrappers + the
R-queue checker, online at every hand-out and offline at every exhaustion).
"""
from vdrive.core import fp
from vmon import base, m_queue
from vuniv import intuniv

PROPERTY = "C16"
LEVEL = "exploration"
RULE = (
    "case = one history of 5-150 operations (add, stop, verified, not-inferrable, next, drain, "
    "do_level, poll-after-exhaustion) on a real DefaultQueue over a pack of opaque strategy tokens "
    "(0-2 inferral, 0-3 initial, 0-3 expansion sets of 0-3 strategies) and 1-12 labels, always ended "
    "by a full drain so that the completeness clause is evaluated. The thorough tier adds a small-scope "
    "exhaustive layer: every history of 1-5 operations from {add, stop, not-inferrable} x 2 labels, next, "
    "do_level, over four pack shapes (149 792 histories), each followed by a full drain. non-trivial = >= 3 labels "
    "completed all stages, at least one external stop and one exhaustion; distinct = histories"
)
LEVEL_TEXT = (
    "exploration: offline/online checker of the recorded hand-out stream (exactly-once, ordering, "
    "no-work-after-stop, completeness at exhaustion) on the real queue over random histories"
)
LEVEL_NOTE = (
    "strategies are opaque tokens (the queue never calls them); intra-stage order is not judged, "
    "only the order of stages; the queue's own stop mark after the last expansion set is not an "
    "external stop"
)
TECHNIQUE = "recording wrappers + trace checker (exactly-once / ordering / completeness) on the real queue"
ASSUMPTIONS = ["a label counts as 'told to stop' from the moment set_stop_yielding/set_verified is called by a client"]
FLOORS = {
    "quick": {"nontrivial": 500, "counters": {"queue.handouts_checked": 50000,
                                               "queue.exhaustions_checked": 5000,
                                               "queue.labels_complete_at_exhaustion": 20000,
                                               "queue.do_level_completed": 1000,
                                               "queue.do_level_ran_dry": 300}},
    "thorough": {"nontrivial": 10000, "counters": {"queue.handouts_checked": 1000000,
                                                    "queue.exhaustions_checked": 100000,
                                                    "queue.do_level_completed": 20000,
                                                    "queue.do_level_ran_dry": 6000,
                                                    "c16.exhaustive_histories": 149792}},
}
# W5: the repository's own test suite runs once under these ambient monitors (thorough tier)
W5_MONITORS = ['queue']
CASE_TIMEOUT = {"quick": 30, "thorough": 60}
SIZES = {"quick": 5000, "thorough": 100000}


class Tok:
    def __init__(self, name):
        self.name = name

    def __repr__(self):
        return self.name


def shard_setup(tier):
    m_queue.install()


def gen_cases(tier, seed):
    for i in range(SIZES[tier]):
        rng = intuniv.rng_for(seed, "C16", i)
        pack = {"inferral": rng.choice((0, 1, 1, 2)), "initial": rng.choice((0, 1, 1, 2, 3)),
                "sets": [rng.choice((0, 1, 1, 2, 3)) for _ in range(rng.choice((0, 1, 1, 2, 3)))]}
        nlab = rng.randint(1, 12)
        ops = [["add", 0]]
        for _ in range(rng.randint(5, 150)):
            r = rng.random()
            lab = rng.randrange(nlab)
            if r < 0.22:
                ops.append(["add", lab])
            elif r < 0.29:
                ops.append(["stop", lab])
            elif r < 0.32:
                ops.append(["verified", lab])
            elif r < 0.38:
                ops.append(["noinf", lab])
            elif r < 0.78:
                ops.append(["next", rng.randint(1, 6)])
            elif r < 0.86:
                ops.append(["level"])
            elif r < 0.90:
                ops.append(["drain"])
            elif r < 0.95:
                ops.append(["poll", rng.randint(1, 3)])
            else:
                # a burst: a child found while its parent is being worked on
                ops.append(["next", 1])
                ops.append(["add", lab])
                ops.append(["add", lab])
        ops.append(["drain"])
        ops.append(["poll", 2])
        yield {"id": i, "pack": pack, "nlab": nlab, "ops": ops}
    if tier == "thorough":
        yield from gen_exhaustive()


def gen_exhaustive(block=600):
    """Small-scope exhaustive layer: every history of 1-5 operations from {add, stop,
    not-inferrable} x 2 labels, next, do_level - over four pack shapes; each history is
    followed by a full drain (so the completeness clause is evaluated)."""
    import itertools

    alphabet = [["add", 0], ["add", 1], ["stop", 0], ["stop", 1], ["noinf", 0], ["noinf", 1],
                ["next", 1], ["level"]]
    packs = ({"inferral": 1, "initial": 1, "sets": [1]}, {"inferral": 1, "initial": 0, "sets": [2]},
             {"inferral": 0, "initial": 2, "sets": [1, 1]}, {"inferral": 2, "initial": 1, "sets": []})
    cur, k = [], 0
    for n in range(1, 6):
        for hist in itertools.product(alphabet, repeat=n):
            cur.append([list(o) for o in hist])
            if len(cur) == block:
                for j, pack in enumerate(packs):
                    yield {"id": f"x{k}.{j}", "kind": "exhaustive", "pack": pack, "histories": cur}
                cur, k = [], k + 1
    if cur:
        for j, pack in enumerate(packs):
            yield {"id": f"x{k}.{j}", "kind": "exhaustive", "pack": pack, "histories": cur}


def run_case(case):
    if case.get("kind") == "exhaustive":
        nt = False
        for j, hist in enumerate(case["histories"]):
            r = run_case({"id": f"{case['id']}/{j}", "pack": case["pack"], "nlab": 2,
                          "ops": hist + [["drain"], ["poll", 1]]})
            nt = nt or r["nontrivial"]
            base.ctx().count("c16.exhaustive_histories")
        return {"nontrivial": nt, "fingerprint": fp(case["id"])}
    from comb_spec_searcher.class_queue import DefaultQueue
    from comb_spec_searcher.exception import NoMoreClassesToExpandError
    from comb_spec_searcher.strategies.strategy_pack import StrategyPack

    cx = base.ctx()
    m_queue.reset()
    p = case["pack"]
    pack = StrategyPack(
        initial_strats=[Tok(f"init{j}") for j in range(p["initial"])],
        inferral_strats=[Tok(f"inf{j}") for j in range(p["inferral"])],
        expansion_strats=[[Tok(f"s{i}.{j}") for j in range(n)] for i, n in enumerate(p["sets"])],
        ver_strats=[], name="tokens")
    q = DefaultQueue(pack)
    sh = m_queue.shadow_of(q)
    budget = 5000

    def one():
        nonlocal budget
        budget -= 1
        if budget < 0:
            cx.violation("C16:does-not-terminate", "more than 5000 hand-outs for <= 12 labels", None)
        try:
            next(q)
            return True
        except StopIteration:
            return False

    for op in case["ops"]:
        kind = op[0]
        if kind == "add":
            q.add(op[1])
        elif kind == "stop":
            q.set_stop_yielding(op[1])
        elif kind == "verified":
            q.set_verified(op[1])
        elif kind == "noinf":
            q.set_not_inferrable(op[1])
        elif kind == "next":
            for _ in range(op[1]):
                if not one():
                    break
        elif kind == "drain":
            while one():
                pass
        elif kind == "poll":
            for _ in range(op[1]):
                one()
        elif kind == "level":
            try:
                for _ in q.do_level():
                    budget -= 1
                    if budget < 0:
                        cx.violation("C16:does-not-terminate", "do_level does not end", None)
            except NoMoreClassesToExpandError:
                pass
    total = 1 + p["initial"] * 0 + 0
    per_label = (1 if p["inferral"] else 0) + p["initial"] + sum(p["sets"])
    complete = sum(1 for lab in sh.added - sh.stopped if len(sh.handed.get(lab, ())) >= max(1, per_label) - (1 if p["inferral"] else 0))
    cx.see("pack_shape", f"{p['inferral']}/{p['initial']}/{p['sets']}")
    return {"nontrivial": complete >= 3 and bool(sh.stopped) and per_label >= 2,
            "fingerprint": fp([case["pack"], case["ops"]])}
