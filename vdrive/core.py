"""Driver framework: case sharding, verdicts, evidence, replay, known findings.

    python -m vdrive.core C03 --tier quick
    python -m vdrive.core C03 --replay replays/C03-0.json

A driver module vdrive/cNN.py provides

    PROPERTY, RULE, ASSUMPTIONS, LEVEL_NOTE (strings / list)
    gen_cases(tier, seed)  -> iterable of JSON-able case dicts (deterministic)
    run_case(case)         -> dict(nontrivial=bool, fingerprint=str, [skip=str])
                              monitors and the driver report through vmon.base.ctx()
    FLOORS[tier]           -> {"nontrivial": n, "counters": {name: min, ...}}
    CASE_TIMEOUT[tier]     -> seconds (wall-clock watchdog per case; firing = inconclusive)
    classify(violation)    -> optional refinement of the mechanism string
"""
import argparse
import concurrent.futures
import hashlib
import importlib
import json
import os
import subprocess
import sys
import tempfile
import time
import traceback

HOME = os.environ.get("VERIF_HOME") or os.path.dirname(
    os.path.dirname(os.path.abspath(__file__))
)
# where evidence/ and replays/ go: /verif itself, except for drills against scratch copies
OUT = os.environ.get("VERIF_OUT") or HOME
sys.path.insert(0, HOME) if HOME not in sys.path else None

from vmon import base  # noqa: E402

base.add_deps_path()

EXIT_HELD, EXIT_VIOLATION, EXIT_BROKEN, EXIT_INCONCLUSIVE = 0, 1, 2, 3


def fp(obj) -> str:
    return hashlib.sha1(
        json.dumps(obj, sort_keys=True, default=str).encode()
    ).hexdigest()[:14]


def load_driver(prop):
    return importlib.import_module(f"vdrive.{prop.lower()}")


# --------------------------------------------------------------------------- shard


W5_KIND = "__w5__"


def all_cases(driver, tier, seed):
    """The driver's cases, plus (thorough tier, drivers naming ambient monitors in
    W5_MONITORS) one case that runs the repository's own test suite under those monitors."""
    yield from driver.gen_cases(tier, seed)
    mons = getattr(driver, "W5_MONITORS", None)
    if mons and tier in getattr(driver, "W5_TIERS", ("thorough",)):
        yield {"id": "w5", "kind": W5_KIND, "monitors": list(mons)}


def dispatch_case(driver, case):
    if case.get("kind") == W5_KIND:
        from vdrive import w5

        return w5.run_repo_tests(case["monitors"])
    return driver.run_case(case)


def run_one(driver, case, timeout):
    """Run one case under a fresh context and the watchdog; never raises."""
    cx = base.new_ctx()
    out = {"id": case.get("id"), "status": "held", "nontrivial": False, "fingerprint": None}
    t0 = time.time()
    try:
        with base.watchdog(max(timeout, 1200) if case.get("kind") == W5_KIND else timeout):
            res = dispatch_case(driver, case) or {}
        out["nontrivial"] = bool(res.get("nontrivial"))
        out["fingerprint"] = res.get("fingerprint")
        if res.get("skip"):
            out["status"] = "skip"
            out["reason"] = res["skip"]
        if res.get("inconclusive"):
            out["status"] = "inconclusive"
            out["reason"] = res["inconclusive"]
    except base.Violation:
        pass  # recorded in the context
    except base.CaseTimeout:
        out["status"] = "inconclusive"
        out["reason"] = f"watchdog {timeout}s"
    except RecursionError as e:
        out["status"] = "inconclusive"
        out["reason"] = "RecursionError in harness/library: " + base.crash_site(e)
    except MemoryError:
        out["status"] = "inconclusive"
        out["reason"] = "MemoryError"
    except BaseException as e:  # noqa: BLE001  - driver did not classify it
        if isinstance(e, (KeyboardInterrupt, SystemExit)):
            raise
        cx.violation(
            f"crash:{type(e).__name__}@{base.crash_site(e)}",
            f"unclassified exception {type(e).__name__}: {e}",
            {"traceback": base.short_tb(e, 10)},
            raise_=False,
        )
    if cx.violations:
        out["status"] = "violation"
        out["violations"] = cx.violations
    out["counters"] = cx.counters
    out["seen"] = {k: sorted(map(str, v))[:200] for k, v in cx.seen.items()}
    out["notes"] = cx.notes
    out["wall"] = round(time.time() - t0, 3)
    return out


def shard_main(args):
    driver = load_driver(args.property)
    base.silence_logging()
    tier, seed = args.tier, args.seed
    timeout = driver.CASE_TIMEOUT[tier]
    results = []
    if hasattr(driver, "shard_setup"):
        driver.shard_setup(tier)
    deadline = time.time() + args.budget if args.budget else None
    truncated = 0
    for idx, case in enumerate(all_cases(driver, tier, seed)):
        if idx % args.nchunks != args.chunk:
            continue
        if deadline and time.time() > deadline:
            truncated += 1
            continue
        case.setdefault("id", idx)
        r = run_one(driver, case, timeout)
        if r["status"] in ("violation", "inconclusive") or r["nontrivial"]:
            r["case"] = case
        results.append(r)
    with open(args.out, "w") as f:
        json.dump({"results": results, "truncated": truncated}, f, default=str)
    return 0


# --------------------------------------------------------------------------- parent


def load_known():
    path = os.path.join(HOME, "known_findings.json")
    if not os.path.exists(path):
        return []
    with open(path) as f:
        return json.load(f).get("findings", [])


def match_known(prop, violation, known):
    for k in known:
        if k.get("status") != "open" or k["property"] != prop:
            continue
        if violation["mechanism"] == k.get("mechanism") or violation["mechanism"] in k.get("mechanisms", ()):
            return k
    return None


def validate_evidence(ev):
    try:
        import jsonschema

        with open("/root/.vp/EVIDENCE.schema.json") as f:
            schema = json.load(f)
        jsonschema.validate(ev, schema)
        return None
    except FileNotFoundError:
        return None
    except Exception as e:  # noqa: BLE001
        return str(e)[:500]


def parent_main(args):
    t0 = time.time()
    prop = args.property
    driver = load_driver(prop)
    tier, seed = args.tier, args.seed
    workers = args.workers or min(16, os.cpu_count() or 4)
    nchunks = args.chunks or workers * 3
    tmpdir = tempfile.mkdtemp(prefix=f"verif-{prop}-", dir=os.environ.get("VERIF_TMP"))
    shard_timeout = driver.SHARD_TIMEOUT[tier] if hasattr(driver, "SHARD_TIMEOUT") else 3600
    budget = getattr(driver, "SHARD_BUDGET", {}).get(tier, 0)

    def launch(chunk):
        out = os.path.join(tmpdir, f"chunk{chunk}.json")
        cmd = [
            sys.executable, "-m", "vdrive.core", prop, "--tier", tier, "--seed", str(seed),
            "--shard", "--chunk", str(chunk), "--nchunks", str(nchunks), "--out", out,
            "--budget", str(budget),
        ]
        try:
            p = subprocess.run(cmd, capture_output=True, text=True, timeout=shard_timeout)
            if p.returncode != 0 or not os.path.exists(out):
                return {"shard_error": f"chunk {chunk} rc={p.returncode}: {p.stderr[-1500:]}"}
            with open(out) as f:
                return json.load(f)
        except subprocess.TimeoutExpired:
            return {"shard_error": f"chunk {chunk} exceeded shard timeout {shard_timeout}s"}

    with concurrent.futures.ThreadPoolExecutor(max_workers=workers) as ex:
        chunks = list(ex.map(launch, range(nchunks)))
    try:
        for fn in os.listdir(tmpdir):
            os.unlink(os.path.join(tmpdir, fn))
        os.rmdir(tmpdir)
    except OSError:
        pass
    return finish(driver, prop, tier, seed, chunks, t0)


def finish(driver, prop, tier, seed, chunks, t0, replay=False):
    counters, seen = {}, {}
    fingerprints = set()
    status_count = {"held": 0, "violation": 0, "inconclusive": 0, "skip": 0}
    violations, inconclusive, shard_errors, samples, nt_samples = [], [], [], [], []
    evaluations = truncated = 0
    skip_reasons = {}
    for ch in chunks:
        if "shard_error" in ch:
            shard_errors.append(ch["shard_error"])
            continue
        truncated += ch.get("truncated", 0)
        for r in ch["results"]:
            evaluations += 1
            status_count[r["status"]] += 1
            for k, v in r.get("counters", {}).items():
                counters[k] = counters.get(k, 0) + v
            for k, v in r.get("seen", {}).items():
                seen.setdefault(k, set()).update(v)
            if r["status"] == "violation":
                for v in r["violations"]:
                    violations.append({"case": r.get("case"), **v})
            elif r["status"] == "inconclusive":
                inconclusive.append({"id": r["id"], "reason": r.get("reason")})
            elif r["status"] == "skip":
                skip_reasons[r.get("reason")] = skip_reasons.get(r.get("reason"), 0) + 1
            if r["status"] == "held" and r["nontrivial"]:
                fingerprints.add(r["fingerprint"] or fp(r.get("case")))
                if len(nt_samples) < 3 and r.get("case") is not None:
                    nt_samples.append({"case": r["case"], "observed": r.get("counters")})
    samples = nt_samples

    known = load_known()
    new_violations, known_hits = [], {}
    for v in violations:
        if hasattr(driver, "classify"):
            v["mechanism"] = driver.classify(v) or v["mechanism"]
        k = match_known(prop, v, known)
        if k is not None:
            known_hits.setdefault(k["id"], {"finding": k, "count": 0, "example": v})
            known_hits[k["id"]]["count"] += 1
        else:
            new_violations.append(v)

    floors = driver.FLOORS[tier] if not replay else {"nontrivial": 0, "counters": {}}
    unmet = []
    if len(fingerprints) < floors.get("nontrivial", 0):
        unmet.append(f"distinct_nontrivial {len(fingerprints)} < {floors['nontrivial']}")
    for name, mn in floors.get("counters", {}).items():
        if counters.get(name, 0) < mn:
            unmet.append(f"counter {name}={counters.get(name, 0)} < {mn}")
    for name, mn in floors.get("seen", {}).items():
        if len(seen.get(name, ())) < mn:
            unmet.append(f"seen {name}={len(seen.get(name, ()))} < {mn}")
    max_inconcl = floors.get("max_inconclusive_frac", 0.2)
    if evaluations and status_count["inconclusive"] > max_inconcl * evaluations:
        unmet.append(f"inconclusive cases {status_count['inconclusive']}/{evaluations}")
    if shard_errors:
        unmet.append(f"{len(shard_errors)} shard errors")

    wall = round(time.time() - t0, 2)
    coverage = {
        "evaluations": evaluations,
        "distinct_nontrivial": len(fingerprints),
        "rule": driver.RULE,
        "samples": samples or [{"note": "no non-trivial held case to show"}],
        "status": status_count,
        "skip_reasons": skip_reasons,
        "monitor_counters": dict(sorted(counters.items())),
        "seen": {k: (sorted(v) if len(v) <= 40 else {"count": len(v), "first": sorted(v)[:40]})
                 for k, v in sorted(seen.items())},
        "inconclusive": inconclusive[:20],
        "truncated_by_budget": truncated,
        "known_finding_hits": {k: v["count"] for k, v in known_hits.items()},
        "floors": floors,
        "floors_unmet": unmet,
        "shard_errors": shard_errors[:5],
        "exhaustive": bool(getattr(driver, "EXHAUSTIVE", {}).get(tier, False)),
    }
    ev = {
        "property_id": prop,
        "tier": tier,
        "seed": seed,
        "level": getattr(driver, "LEVEL", "exploration"),
        "coverage": coverage,
        "assumptions": list(getattr(driver, "ASSUMPTIONS", [])),
        "wall_s": wall,
        "violations": len(new_violations),
    }
    err = None if replay else validate_evidence(ev)
    if not replay:
        os.makedirs(os.path.join(OUT, "evidence"), exist_ok=True)
        with open(os.path.join(OUT, "evidence", f"{prop}.json"), "w") as f:
            json.dump(ev, f, indent=1, default=str)

    print(f"[{prop}] tier={tier} seed={seed} cases={evaluations} "
          f"distinct_nontrivial={len(fingerprints)} status={status_count} wall={wall}s")
    for k, v in sorted(counters.items()):
        print(f"    counter {k} = {v}")
    for k, v in sorted(seen.items()):
        print(f"    seen {k}: {len(v)} distinct")
    for kid, h in known_hits.items():
        k = h["finding"]
        print(f"KNOWN-FINDING: property={prop} {k['id']} {k['what']} (hit {h['count']}x)")
    if err and not new_violations and not unmet:
        print(f"BROKEN: evidence does not validate: {err}")
        return EXIT_BROKEN
    if new_violations:
        os.makedirs(os.path.join(OUT, "replays"), exist_ok=True)
        by_mech = {}
        for v in new_violations:
            by_mech.setdefault(v["mechanism"], []).append(v)
        n = 0
        for mech, vs in sorted(by_mech.items()):
            path = os.path.join(OUT, "replays", f"{prop}-{n}.json")
            n += 1
            if not replay:
                with open(path, "w") as f:
                    json.dump({"property": prop, "tier": tier, "seed": seed, "mechanism": mech,
                               "count": len(vs), "case": vs[0]["case"], "message": vs[0]["message"],
                               "witness": vs[0]["witness"]}, f, indent=1, default=str)
            print(f"    mechanism {mech} x{len(vs)}: {vs[0]['message'][:300]}")
            print(f"VIOLATION property={prop} replay={path}")
        return EXIT_VIOLATION
    if unmet:
        print(f"INCONCLUSIVE property={prop} " + "; ".join(unmet))
        for e in shard_errors[:3]:
            print("    " + e.replace("\n", "\n    "))
        return EXIT_INCONCLUSIVE
    print(f"HELD property={prop} on everything explored")
    return EXIT_HELD


def replay_main(args):
    t0 = time.time()
    driver = load_driver(args.property)
    base.silence_logging()
    with open(args.replay) as f:
        rec = json.load(f)
    case = rec["case"]
    tier = rec.get("tier", args.tier)
    if hasattr(driver, "shard_setup"):
        driver.shard_setup(tier)
    r = run_one(driver, case, driver.CASE_TIMEOUT[tier] * 4)
    r["case"] = case
    print(json.dumps({k: r[k] for k in ("status", "counters", "notes") if k in r}, default=str)[:3000])
    for v in r.get("violations", []):
        print("  ", v["mechanism"], "::", v["message"][:1500])
    return finish(driver, args.property, tier, rec.get("seed", 0), [{"results": [r]}], t0, replay=True)


def main(argv=None):
    ap = argparse.ArgumentParser()
    ap.add_argument("property")
    ap.add_argument("--tier", default=os.environ.get("VERIF_TIER", "quick"),
                    choices=["quick", "thorough"])
    ap.add_argument("--seed", type=int, default=int(os.environ.get("VERIF_SEED", "0")))
    ap.add_argument("--replay")
    ap.add_argument("--workers", type=int, default=0)
    ap.add_argument("--chunks", type=int, default=0)
    ap.add_argument("--shard", action="store_true")
    ap.add_argument("--chunk", type=int, default=0)
    ap.add_argument("--nchunks", type=int, default=1)
    ap.add_argument("--budget", type=float, default=0)
    ap.add_argument("--out")
    args = ap.parse_args(argv)
    args.property = args.property.upper()
    if args.shard:
        return shard_main(args)
    if args.replay:
        return replay_main(args)
    return parent_main(args)


if __name__ == "__main__":
    try:
        sys.exit(main())
    except Exception:  # noqa: BLE001
        traceback.print_exc()
        sys.exit(EXIT_BROKEN)
