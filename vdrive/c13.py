"""C13 – the parallel specification finder is total and its output is a matched pair.

Pairs of real searchers on related word classes (relabelled, redundant patterns,
different packs for one class, unrelated), packs with symmetries and inferral strategies
so that the start label and its equivalence representative differ, both finder variants.
Judged: find() does not fail on a well-formed pair (documented refusals are counted: the
finder requires the default rule database, atom-only verification and an existing
specification); a returned pair consists of two specifications each valid (C01 oracle +
C02 monitor) for its own searcher's start class, and Isomorphism.check of the pair is
True.  The C12 postconditions watch any bijection built on the pair.
"""
from vdrive import c12, searchlib
from vdrive.core import fp
from vmon import base, m_bijection, m_spec
from vref import words as rw
from vuniv import finlang, gen, intuniv, words

PROPERTY = "C13"
LEVEL = "exploration"
RULE = (
    "case = (first, under every seed, the 40 mined inputs of corpus/c13_context.json on which the equivalence-path verdict depends on the context it is asked from, and the 70 finite-language pairs of corpus/c13_finlang.json; then) two fresh real searchers (default rule database, atom-verified non-iterative packs) on a "
    "related pair of word classes - or, a fifth of the cases, on a pair of finite languages over {a,b}, each side with its own subset of five strategies and two symmetries - and one of the two finder variants; find() is called; judged: no "
    "exception, and for a returned pair both specifications enumerate their own start class (brute "
    "force to N), pass the C02 structural monitor, and are isomorphic to each other. non-trivial = a "
    "pair was returned with >= 4 rules on each side, or the start label was not its class "
    "representative; distinct = case fingerprints"
)
LEVEL_TEXT = "exploration: totality + C01/C02 oracles + real isomorphism check on every pair the real finders return"
LEVEL_NOTE = "well-formed = default RuleDB, non-iterative pack whose only verified classes are atoms, finite universe containing a specification"
TECHNIQUE = "runtime monitoring: exception-recording wrapper and postconditions on find()"
ASSUMPTIONS = ["R-words", "the C02 monitor's assumptions"]
N = {"quick": 6, "thorough": 8}
FLOORS = {
    "quick": {"nontrivial": 100, "counters": {"finder.find_calls": 300, "finder.pairs_returned": 120,
                                               "finder.start_not_representative": 40,
                                               "spec.specs_examined": 200}},
    "thorough": {"nontrivial": 2000, "counters": {"finder.find_calls": 7500, "finder.pairs_returned": 2400,
                                                   "finder.start_not_representative": 800}},
}
CASE_TIMEOUT = {"quick": 90, "thorough": 180}
SIZES = {"quick": 700, "thorough": 10000}
KINDS = ("relabel", "relabel", "redundant", "repack", "repack", "same", "unrelated", "near", "near", "onesided",
         "onesided", "onesided", "onesided", "symne", "symne", "finlang", "finlang", "finlang", "finlang", "rotated")


# experiment knob (never set by the registered commands): restrict the generated pair kinds
ONLY_KINDS = tuple(k for k in __import__("os").environ.get("VERIF_C13_KINDS", "").split(",") if k)

_LAST_SECOND_SEARCH = {}


def shard_setup(tier):
    searchlib.install_ambient()
    m_spec.install()
    m_bijection.install()
    # classification aid only: remember what the second search of the finder returned
    from comb_spec_searcher import bijection as bmod

    for cls in (bmod.ParallelSpecFinder, bmod.EqPathParallelSpecFinder):
        if getattr(cls, "_verif_wrapped", None) is cls:
            continue
        orig = cls.__dict__["_search_matching_info"]

        def wrapped(self, matching_info, _orig=orig):
            # (recorded before the call as well: the search may end in an exception)
            _LAST_SECOND_SEARCH.update(info=matching_info, res=None, roots=(self._pi1.root_eq_label,
                                                                           self._pi2.root_eq_label),
                                       empty_entries=sum(1 for v in matching_info.values() if not v))
            res = _orig(self, matching_info)
            _LAST_SECOND_SEARCH.update(res=res)
            return res

        cls._search_matching_info = wrapped
        cls._verif_wrapped = cls
    # ... and whether the second search ever accepted a pair of labels whose two assigned
    # rules were not matched with each other (the defect repaired by 8ce5a11; must not hide
    # behind the open finding about *descendants* of such pairs)
    base_cls = bmod.ParallelSpecFinder
    if not getattr(base_cls, "_verif_wrapped_inconsistent", False):
        orig_inc = base_cls.__dict__["_inconsistent_with_matching_info"].__func__

        def inconsistent(id1, id2, matching_info, matching_info1, matching_info2, sp1, sp2):
            res = orig_inc(id1, id2, matching_info, matching_info1, matching_info2, sp1, sp2)
            if (not res and id1 in sp1 and id2 in sp2 and (id1, id2) in matching_info
                    and (sp1[id1], sp2[id2]) not in matching_info[(id1, id2)]):
                _LAST_SECOND_SEARCH["pair_itself_unmatched"] = True
            return res

        base_cls._inconsistent_with_matching_info = staticmethod(inconsistent)
        base_cls._verif_wrapped_inconsistent = True


def unmatched_descendants():
    """Classification predicate for a returned pair that is not isomorphic: do the two rule
    assignments of the second search pair up, somewhere below the roots, two rules that the
    first search never matched with each other?"""
    st = _LAST_SECOND_SEARCH
    if not st or st.get("res") is None:
        return False
    info, (sp1, sp2) = st["info"], st["res"]
    todo, seen = [st["roots"]], set()
    while todo:
        a, c = todo.pop()
        if (a, c) in seen:
            continue
        seen.add((a, c))
        ch1, ch2 = sp1.get(a), sp2.get(c)
        if ch1 is None or ch2 is None:
            continue
        order = info.get((a, c), {}).get((ch1, ch2)) if (a, c) in info else None
        if order is None:
            # two rules assigned to a pair of labels for which the first search recorded other
            # matchings (the open finding) - or a pair for which it recorded none at all
            return "never-matched-pair" if not info.get((a, c)) else True
        todo.extend((ch1[i], c2) for i, c2 in zip(order, ch2))
    return False


def corpus_cases():
    """Mined inputs (tools/mine_c13.py) on which the equivalence-path verdict of the second
    search depends on the context it is asked from; replayed in both tiers, every seed."""
    import json
    import os

    path = os.path.join(os.path.dirname(os.path.dirname(os.path.abspath(__file__))), "corpus", "c13_context.json")
    with open(path) as f:
        out = json.load(f)
    # ... and finite-language pairs (tools/mine_c13_finlang.py) on which the first search meets a
    # pair of labels again after failing to match it, plus the pairs sub-agents wrote down
    with open(os.path.join(os.path.dirname(path), "c13_finlang.json")) as f:
        out += json.load(f)
    return out


def gen_cases(tier, seed):
    i = 0
    produced = 0
    if not ONLY_KINDS:
        for c in corpus_cases():
            yield dict(c, id=produced, variant=c.get("variant", "eqpath"), N=N[tier])
            produced += 1
    while produced < SIZES[tier]:
        rng = intuniv.rng_for(seed, "C13", i)
        i += 1
        kind = rng.choice(ONLY_KINDS or KINDS)
        if kind == "finlang":
            # finite languages: several competing rules per class, two symmetries that merge
            # classes differently, each side with its own strategies
            lang = finlang.rand_language(rng)
            if len(lang) < 2:
                continue
            r = rng.random()
            if r < 0.3:
                lang2 = lang
            elif r < 0.45:
                lang2 = [w.translate(str.maketrans("ab", "ba")) for w in lang]
            elif r < 0.55:
                lang2 = [w[::-1] for w in lang]
            else:
                # a near variant: one or two words dropped, added or replaced (the two universes
                # then agree on most classes and fail to match on a few)
                lang2 = list(lang)
                for _ in range(rng.choice((1, 1, 2))):
                    op = rng.random()
                    if op < 0.4 and len(lang2) > 2:
                        lang2.remove(rng.choice(lang2))
                    if op > 0.25:
                        lang2.append("".join(rng.choice("ab") for _ in range(rng.randint(1, 4))))
                lang2 = sorted(set(lang2))
            yield {"id": produced, "kind": kind, "lang1": lang, "side1": finlang.rand_side(rng),
                   "lang2": sorted(lang2), "side2": finlang.rand_side(rng),
                   "variant": rng.choice(("plain", "eqpath")), "N": N[tier]}
            produced += 1
            continue
        c1 = gen.rand_class(rng, max_alpha=2 if rng.random() < 0.85 else 3, max_stats=rng.choice((0, 0, 1)), bytes_p=0)
        if rw.is_empty(c1):
            continue
        p1 = c12.atom_pack(rng)
        if rng.random() < 0.6:
            p1["sym"] = True
        if rng.random() < 0.5:
            p1["inferral"] = rng.choice((["minimise"], ["rename"], ["minimise", "rename"], ["merge"]))
        if intuniv.rng_for(seed, "C13/ne", i).random() < 0.25:
            # a two-way single-child rule that is not an equivalence: classes share an equivalence
            # label without being folded into equivalence paths (redundant patterns make it apply)
            p1["inferral"] = ["minimise_ne"] + [x for x in p1["inferral"] if x != "minimise"]
            c1 = c12.add_redundant(c1, rng)
        if kind == "onesided":
            # the two universes merge classes differently: the symmetry in the pack of one
            # searcher only, several rules per class (two-step expansions), the same class or
            # its relabelling on the other side
            if rng.random() < 0.75:
                # patterns invariant under the letter swap: C(a..) and C(b..) are one label
                # with the symmetry and two labels without it
                tr = str.maketrans("ab", "ba")
                basis = rng.choice((["aa", "bb"], ["ab", "ba"], ["aaa", "bbb"], ["aab", "bba"], ["aba", "bab"],
                                    ["abb", "baa"], ["aa", "bb", "abab", "baba"], ["aab", "bba", "aba", "bab"]))
                extra = set()
                for _ in range(rng.randint(0, 2)):
                    q = rng.choice(basis)
                    q = q + rng.choice("ab") if rng.random() < 0.5 else rng.choice("ab") + q
                    extra.update((q, q.translate(tr)))
                c1 = {"prefix": "".join(rng.choice("ab") for _ in range(rng.choice((0, 0, 1, 1, 2)))),
                      "patterns": sorted(set(basis) | extra), "alphabet": "ab", "just_prefix": False,
                      "stats": [], "bytes": False, "proper": rng.random() < 0.2, "right": None}
                if rw.is_empty(c1):
                    continue
            p1.update(sym=True, twice=rng.choice(([0], [1], [0, 1], [0, 1], [0, 1])), factory=None)
            c2 = c12.relabel(c1, rng) if rng.random() < 0.7 else dict(c1)
            p2 = dict(p1, sym=False)
            if rng.random() < 0.5:
                c1, p1, c2, p2 = c2, p2, c1, p1
        elif kind == "symne":
            # every class shares its label with its mirror image through a two-way rule that is
            # not an equivalence, both images are expanded: the parents of a label reach it
            # through either image, and the two sides choose independently
            p1 = dict(p1, sym="ne", factory=None)
            p1["inferral"] = [x for x in p1["inferral"] if x != "minimise_ne"]
            c2 = c12.relabel(c1, rng) if rng.random() < 0.3 else dict(c1)
            p2 = dict(p1, sym=rng.choice(("ne", "ne", True, False, False, False)))
            if rng.random() < 0.25:
                p2 = dict(c12.atom_pack(rng), sym=p2["sym"])
            if rng.random() < 0.5:
                c1, p1, c2, p2 = c2, p2, c1, p1
        elif kind == "rotated":
            # pairs that differ only in the constructors: after the letter x only x may follow,
            # so C(x^k) = {x^k} + C(x^(k+1)) and C(x^(k+1)) = {x} x C(x^k) - the same two-cycle
            # entered at the union on one side and at the product on the other
            al = rng.choice(("a", "ab", "ab", "abc"))  # (one letter: the union has exactly two children)
            x = rng.choice(al)
            pats = {x + y for y in al if y != x}
            if len(al) > 1 and rng.random() < 0.4:
                pats.add("".join(rng.choice(al) for _ in range(rng.choice((2, 3)))))
            kk = rng.choice((1, 1, 2))
            c1 = {"prefix": x * (kk + 1), "patterns": sorted(pats), "alphabet": al, "just_prefix": False,
                  "stats": [], "bytes": False, "proper": False, "right": None}
            c2 = dict(c1, prefix=x * kk)
            if rw.is_empty(c1) or rw.is_empty(c2):
                continue
            p1 = dict(p1, sym=False, inferral=[], factory=None, plus=False, twice=[], layout="initial", dead=False,
                      split=rng.random() < 0.5)
            p2 = dict(p1, split=False, order=rng.choice((0, 1, 2)))
        elif kind == "relabel":
            c2, p2 = c12.relabel(c1, rng), dict(p1)
        elif kind == "redundant":
            c2, p2 = c12.add_redundant(c1, rng), dict(p1)
            p2["inferral"] = ["minimise"]
        elif kind == "near":
            c2, p2 = c12.near_miss(c1, rng), dict(p1)
            if rw.is_empty(c2):
                continue
        elif kind == "repack":
            c2, p2 = dict(c1), c12.atom_pack(rng)
        elif kind == "same":
            c2, p2 = dict(c1), dict(p1)
        else:
            c2 = gen.rand_class(rng, max_alpha=2, max_stats=0, bytes_p=0)
            p2 = c12.atom_pack(rng)
            if rw.is_empty(c2):
                continue
        variant = rng.choice(("plain", "eqpath"))
        if "minimise_ne" in p1["inferral"] or "minimise_ne" in p2.get("inferral", ()) or "ne" in (p1["sym"], p2["sym"]):
            # ParallelSpecFinder documents that it assumes classes sharing an equivalence label
            # to be equivalent; only the equivalence-path variant is well-formed here
            variant = "eqpath"
        yield {"id": produced, "kind": kind, "c1": c1, "p1": p1, "c2": c2, "p2": p2,
               "variant": variant, "N": N[tier]}
        produced += 1


def collapse_chains(spec):
    """A copy of `spec` in which every run of consecutive equivalence rules is folded into
    one equivalence path (the classes in between keep their own, equally folded, rules).
    Used only to *classify* a failed isomorphism check, never to judge."""
    from copy import copy

    from comb_spec_searcher import CombinatorialSpecification
    from comb_spec_searcher.strategies.rule import EquivalencePathRule, Rule

    rd = spec.rules_dict
    rules = []
    for c, r in rd.items():
        if isinstance(r, Rule) and r.is_equivalence():
            links, seen, t = [], {c}, c
            while t in rd and isinstance(rd[t], Rule) and rd[t].is_equivalence():
                cur = rd[t]
                links.extend(cur.rules if isinstance(cur, EquivalencePathRule) else [cur])
                t = cur.children[0]
                if t in seen:
                    break
                seen.add(t)
            rules.append(EquivalencePathRule([copy(l) for l in links]))
        else:
            rules.append(copy(r))
    m_spec.CONTEXT["enabled"] = False
    try:
        return CombinatorialSpecification(spec.root, rules, group_equiv=False)
    finally:
        m_spec.CONTEXT["enabled"] = True


def same_up_to_single_child_rules(spec1, spec2):
    """Classification aid: are the two specifications the same regular tree once every rule with
    a single non-empty child (equivalences and two-way rules that are not equivalences alike) is
    skipped?  Coinductive comparison of the unfoldings: constructor type, number of non-empty
    children, atoms by size, children in any order."""
    import itertools

    def resolve(spec, c):
        seen = set()
        while c not in seen:
            seen.add(c)
            r = spec.rules_dict.get(c)
            if r is None:
                return c, None, ()
            kids = [k for k in r.children if not k.is_empty()]
            if len(kids) != 1 or not r.children:
                return c, r, kids
            c = kids[0]
        return c, None, ()

    assumed = set()

    def same(c1, c2):
        a, r1, k1 = resolve(spec1, c1)
        b, r2, k2 = resolve(spec2, c2)
        if (a, b) in assumed:
            return True
        if r1 is None or r2 is None or len(k1) != len(k2):
            return False
        if not k1:
            return a.is_atom() and b.is_atom() and a.minimum_size_of_object() == b.minimum_size_of_object()
        try:
            if type(r1.constructor) is not type(r2.constructor):
                return False
        except NotImplementedError:
            return False
        assumed.add((a, b))
        for perm in itertools.permutations(range(len(k2))):
            snapshot = set(assumed)
            if all(same(x, k2[j]) for x, j in zip(k1, perm)):
                return True
            assumed.clear()
            assumed.update(snapshot)
        assumed.discard((a, b))
        return False

    return same(spec1.root, spec2.root)


def ne_profile(spec):
    """(number of forward, number of reverse single-child rules that are not equivalences, is
    one of them on a directed cycle of the specification?)"""
    from comb_spec_searcher.strategies.rule import ReverseRule, Rule

    rd = spec.rules_dict
    ne = [c for c, r in rd.items() if isinstance(r, Rule) and len(r.children) == 1 and not r.is_equivalence()]
    fwd = sum(1 for c in ne if not isinstance(rd[c], ReverseRule))

    def reaches(src, target):
        todo, seen = [src], set()
        while todo:
            x = todo.pop()
            if x == target:
                return True
            if x in seen or x not in rd:
                continue
            seen.add(x)
            todo.extend(rd[x].children)
        return False

    on_cycle = any(reaches(rd[c].children[0], c) for c in ne)
    return fwd, len(ne) - fwd, on_cycle


def has_split_chain(spec):
    from comb_spec_searcher.strategies.rule import Rule

    rd = spec.rules_dict
    return any(isinstance(r, Rule) and r.is_equivalence() and r.children[0] in rd
               and isinstance(rd[r.children[0]], Rule) and rd[r.children[0]].is_equivalence()
               for r in rd.values())


def _truth_empty(c):
    if isinstance(c, words.WC):
        return rw.is_empty(rw.desc_of(c))
    return bool(c.is_empty())


def run_case(case):
    from comb_spec_searcher.bijection import EqPathParallelSpecFinder, ParallelSpecFinder
    from comb_spec_searcher.isomorphism import Bijection, Isomorphism

    cx = base.ctx()
    m_bijection.CONFIG["N"] = min(case["N"], 6)
    fin = case["kind"] == "finlang"
    if fin:
        s1 = finlang.make_searcher(case["lang1"], case["side1"]["exp"], case["side1"]["sym"])
        s2 = finlang.make_searcher(case["lang2"], case["side2"]["exp"], case["side2"]["sym"])
        cx.count("finder.finite_language_pairs")
    else:
        s1 = gen.build_searcher({"cls": case["c1"], "pack": case["p1"], "db": "base"})
        s2 = gen.build_searcher({"cls": case["c2"], "pack": case["p2"], "db": "base"})
    pk1, pk2 = s1.strategy_pack, s2.strategy_pack
    m_spec.set_context(packs=[pk1, pk2], judge_productivity=True, truth_empty=_truth_empty)
    Finder = ParallelSpecFinder if case["variant"] == "plain" else EqPathParallelSpecFinder
    _LAST_SECOND_SEARCH.clear()
    cx.count("finder.find_calls")
    cx.see("finder_variant", case["variant"])
    cx.see("pair_kind", case["kind"])
    try:
        try:
            finder = Finder(s1, s2)
        except ValueError as e:
            if "No specifications" in str(e) or "Only atoms" in str(e):
                cx.count("finder.documented_refusals")
                return {"skip": "documented refusal: " + str(e)[:40]}
            raise
        off_rep = 0
        for s in (s1, s2):
            if s.ruledb.equivdb[s.start_label] != s.start_label:
                off_rep += 1
        if off_rep:
            cx.count("finder.start_not_representative")
        try:
            out = finder.find()
        except Exception as e:  # noqa: BLE001 - totality is the property
            tag = ":assigned-pair-itself-unmatched" if _LAST_SECOND_SEARCH.get("pair_itself_unmatched") else ""
            if _LAST_SECOND_SEARCH.get("empty_entries"):
                # the first search handed over pairs of labels for which it recorded no matching at all
                tag += ":first-search-recorded-pairs-without-a-match"
            cx.violation(f"C13:find-raises:{type(e).__name__}@{base.crash_site(e)}{tag}",
                         f"{Finder.__name__}.find() raised {type(e).__name__}: {str(e)[:300]} "
                         f"(start labels off their representatives: {off_rep})",
                         {"traceback": base.short_tb(e, 8)})
        if out is None:
            cx.count("finder.answered_nothing_found")
            return {"nontrivial": bool(off_rep), "fingerprint": fp(case)}
        spec1, spec2 = out
        cx.count("finder.pairs_returned")
        for spec, desc, tag in (() if fin else ((spec1, case["c1"], "first"), (spec2, case["c2"], "second"))):
            if rw.desc_of(spec.root) != {k: desc.get(k) for k in rw.desc_of(spec.root)} and \
                    rw.key(rw.desc_of(spec.root)) != rw.key(desc):
                cx.violation("C13:wrong-root", f"{tag} specification is for {spec.root!r}", None)
            searchlib.check_enumeration(spec, desc, case["N"], mech=f"C13:returned-specification-wrong-count")
        for spec, lang, tag in (((spec1, case["lang1"], "first"), (spec2, case["lang2"], "second")) if fin else ()):
            if spec.root != finlang.FinLang(lang):
                cx.violation("C13:wrong-root", f"{tag} specification is for {spec.root!r}", None)
            for n in range(max(map(len, lang)) + 2):
                want = sorted(w for w in lang if len(w) == n)
                cx.count("enum.sizes_compared")
                if spec.count_objects_of_size(n) != len(want) or sorted(map(str, spec.generate_objects_of_size(n))) != want:
                    cx.violation("C13:returned-specification-wrong-count",
                                 f"{tag} specification, size {n}: {spec.count_objects_of_size(n)} objects "
                                 f"{sorted(map(str, spec.generate_objects_of_size(n)))}, the language has {want}", None)
        ok = Isomorphism.check(spec1, spec2)
        cx.count("finder.pairs_isomorphism_checked")
        if not ok:
            rev = Isomorphism.check(spec2, spec1)
            # classification only: is the sole obstacle a run of consecutive equivalence
            # rules (a visible class in the middle of an equivalence chain) on one side?
            why = "other"
            if has_split_chain(spec1) or has_split_chain(spec2):
                try:
                    m_bijection._DEPTH[0] += 1
                    if Isomorphism.check(collapse_chains(spec1), collapse_chains(spec2)):
                        why = "split-equivalence-chain"
                except Exception:  # noqa: BLE001
                    pass
                finally:
                    m_bijection._DEPTH[0] -= 1
            if why == "other" and case["variant"] == "eqpath" and not fin and \
                    any("minimise_ne" in p.get("inferral", ()) or p.get("sym") == "ne" for p in (case["p1"], case["p2"])):
                try:
                    # the open finding: the same tree up to single-child rules, the *same numbers*
                    # of non-equivalence unary rules (forward / reverse) on both sides, and one of
                    # them on a cycle - a pair in which one side has a unary rule the other side
                    # lacks altogether is something else
                    if same_up_to_single_child_rules(spec1, spec2) and ne_profile(spec1)[:2] == ne_profile(spec2)[:2] \
                            and (ne_profile(spec1)[2] or ne_profile(spec2)[2]):
                        why = "non-equivalence-unary-rules-misaligned"
                except Exception:  # noqa: BLE001
                    pass
            if why == "other" and _LAST_SECOND_SEARCH.get("pair_itself_unmatched"):
                why = "assigned-pair-itself-unmatched"
            elif why == "other" and unmatched_descendants():
                why = "unmatched-descendants" if unmatched_descendants() is True else \
                    "descendant-pair-the-first-search-never-matched"
            cx.violation(f"C13:returned-pair-not-isomorphic:{why}",
                         f"{Finder.__name__} returned a pair for which Isomorphism.check is {ok} (reverse: {rev}); "
                         f"cause: {why}",
                         {"spec1": str(spec1)[:1500], "spec2": str(spec2)[:1500]})
        try:
            bij = Bijection.construct(spec1, spec2)  # C12 postcondition
        except NotImplementedError:
            bij = None
        if fin and ok and bij is not None:
            # the bijection built on the returned pair, point by point (the whole finite language)
            images = {}
            for w in case["lang1"]:
                img = bij.map(finlang.FW(w))
                cx.count("finder.bijection_points_checked")
                if str(img) not in case["lang2"] or len(img) != len(w) or str(bij.inverse_map(img)) != w:
                    cx.violation("C12:map-not-a-size-preserving-bijection",
                                 f"bijection on a pair returned by {Finder.__name__}: {w!r} -> {str(img)!r}, back "
                                 f"{str(bij.inverse_map(img))!r}", None)
                images[str(img)] = w
            if len(images) != len(case["lang1"]) or len(case["lang1"]) != len(case["lang2"]):
                cx.violation("C12:map-not-a-size-preserving-bijection",
                             f"{len(case['lang1'])} words are sent to {len(images)} of {len(case['lang2'])}", None)
        p1, p2 = searchlib.spec_profile(spec1), searchlib.spec_profile(spec2)
        return {"nontrivial": (p1["rules"] >= 4 and p2["rules"] >= 4) or bool(off_rep), "fingerprint": fp(case)}
    finally:
        m_spec.set_context()
