"""Shared by the search-based drivers: run one real search under a scripted schedule
(virtual clock, seeded proof-tree RNG), classify its outcome, describe the specification."""
from vmon import base, clock as vclock, m_search, rng as vrng
from vref import words as rw
from vuniv import gen


def rand_schedule(rng, iterative=False, forest=False):
    mode = rng.choice(("drain", "drain", "sliced", "sliced", "interrupt", "levels"))
    sch = {"mode": mode, "rng_seed": rng.randrange(10 ** 6), "tree_k": rng.choice((0, 1, 3, 8)),
           "perc": rng.choice((1, 1, 5, 50, 100)),
           "smallest": (not iterative) and rng.random() < 0.25}
    if mode == "sliced":
        sch["costs"] = [rng.choice((0.001, 1.5, 2.5, 4.5, 9.5, 30.5)) for _ in range(rng.randint(1, 4))]
    if mode == "interrupt":
        sch["interrupt_at"] = rng.randint(1, 25)
        sch["resume"] = rng.choice(("drain", "sliced"))
        sch["costs"] = [rng.choice((0.001, 2.5, 7.5))]
    if mode == "levels":
        sch["min_time"] = rng.choice((0, 0, 10))
    return sch


DEFAULT_SCHEDULE = {"mode": "drain", "rng_seed": 0, "tree_k": 2, "perc": 1, "smallest": False}


def install_ambient():
    m_search.install()
    vrng.install()


class SearchResult:
    def __init__(self):
        self.outcome = None  # "spec" | "notfound" | "maxtime"
        self.spec = None
        self.searcher = None
        self.state = None
        self.interrupted_at = None
        self.clock = None


def run_search(case, searcher=None, on_packet=None):
    """Run the search described by `case` (cls, pack, db, expand_verified, schedule).
    Library exceptions other than the documented outcomes propagate."""
    from comb_spec_searcher.exception import (
        ExceededMaxtimeError,
        NoMoreClassesToExpandError,
        SpecificationNotFound,
    )

    install_ambient()
    sch = dict(DEFAULT_SCHEDULE)
    sch.update(case.get("schedule") or {})
    clk, _ = vclock.install(vclock.VirtualClock(), vclock.BudgetClock(sch.get("tree_k", 2)))
    vrng.set_rng(vrng.ScriptedRNG(sch.get("rng_seed", 0)))
    res = SearchResult()
    res.clock = clk
    s = searcher if searcher is not None else gen.build_searcher(case)
    res.searcher = s
    cx = base.ctx()
    mode = sch["mode"]
    schedule = vclock.Schedule(clk, "drain" if mode == "levels" else mode,
                               sch.get("costs", ()), sch.get("perc", 1))
    res.state = m_search.attach(s, schedule, on_packet)
    kwargs = {"perc": sch.get("perc", 1), "smallest": bool(sch.get("smallest"))}
    cx.see("schedule_mode", mode)
    try:
        if mode in ("drain", "sliced"):
            res.spec = s.auto_search(**kwargs)
        elif mode == "interrupt":
            k = sch["interrupt_at"]
            try:
                res.spec = s.auto_search(max_expansion_time=k - 0.5, **kwargs)
            except ExceededMaxtimeError:
                res.interrupted_at = len(res.state.packets)
                cx.count("search.interrupted")
                cx.see("interrupted_after_packets", res.interrupted_at)
                schedule.mode = sch.get("resume", "drain")
                res.spec = s.auto_search(**kwargs)
        elif mode == "levels":
            try:
                while not s.has_specification():
                    s.do_level()
                    cx.count("search.levels_done")
            except NoMoreClassesToExpandError:
                # the queue ran dry inside the level that may have completed the universe
                cx.count("search.levels_exhausted")
            res.spec = s.get_specification(
                minimization_time_limit=sch.get("min_time", 0), smallest=kwargs["smallest"])
        else:
            raise ValueError(mode)
        res.outcome = "spec"
    except (SpecificationNotFound, NoMoreClassesToExpandError):
        res.outcome = "notfound"
    return res


def spec_profile(spec):
    """Structure of a specification: rule kinds, recursion, size."""
    from comb_spec_searcher.strategies.rule import (
        EquivalencePathRule,
        EquivalenceRule,
        ReverseRule,
        Rule,
        VerificationRule,
    )

    kinds = {}
    graph = {}
    for cls, rule in spec.rules_dict.items():
        name = type(rule).__name__
        if isinstance(rule, EquivalencePathRule):
            if any(isinstance(r, ReverseRule) or isinstance(getattr(r, "original_rule", None), ReverseRule)
                   for r in rule.rules):
                name = "EquivalencePathRule+reverse"
        elif isinstance(rule, EquivalenceRule) and isinstance(rule.original_rule, ReverseRule):
            name = "EquivalenceRule(reverse)"
        elif isinstance(rule, ReverseRule):
            name = "ReverseRule" + ("(equiv)" if rule.is_equivalence() else "")
        elif isinstance(rule, VerificationRule):
            name = "Verification:" + type(rule.strategy).__name__
        elif isinstance(rule, Rule):
            name = "Rule:" + type(rule.strategy).__name__
        kinds[name] = kinds.get(name, 0) + 1
        graph[cls] = list(rule.children)
    # recursion: a cycle in the dependency graph
    color = {}
    recursive = False
    for start in graph:
        if start in color:
            continue
        stack = [(start, iter(graph.get(start, ())))]
        color[start] = 1
        while stack:
            v, it = stack[-1]
            for w in it:
                if color.get(w) == 1:
                    recursive = True
                elif w not in color:
                    color[w] = 1
                    stack.append((w, iter(graph.get(w, ()))))
                    break
            else:
                color[v] = 2
                stack.pop()
    return {"rules": len(spec.rules_dict), "kinds": kinds, "recursive": recursive}


def check_enumeration(spec, cls_desc, upto, mech="C01:wrong-count"):
    """C01 oracle: terms of the specification against R-words for all sizes <= upto and
    all parameter tuples; also through count_objects_of_size."""
    cx = base.ctx()
    names = rw.stat_names(cls_desc)
    for n in range(upto + 1):
        want = rw.norm(rw.terms(cls_desc, n))
        got = rw.norm(spec.get_terms(n))
        cx.count("enum.sizes_compared")
        if got != want:
            cx.violation(mech, f"size {n}: specification gives {dict(got)}, truth {dict(want)}",
                         {"n": n, "got": {str(k): v for k, v in got.items()},
                          "want": {str(k): v for k, v in want.items()}})
        for p, v in want.items():
            c = spec.count_objects_of_size(n, **dict(zip(names, p)))
            cx.count("enum.counts_compared")
            if c != v:
                cx.violation(mech, f"count_objects_of_size({n},{p})={c}, truth {v}", {"n": n})
            if len(names) >= 2:  # keyword order must not matter
                c = spec.count_objects_of_size(n, **dict(reversed(list(zip(names, p)))))
                if c != v:
                    cx.violation(mech, f"count_objects_of_size({n}, keywords reversed {p})={c}, truth {v}", {"n": n})
    return True


def moving_paths(spec):
    """Number of equivalence paths of the specification with >= 2 steps of which one that
    is not the last changes the object (a letter symmetry, forwards or backwards): there
    the composition order of the steps' object maps matters."""
    from comb_spec_searcher.strategies.rule import EquivalencePathRule

    from vuniv.words import LetterSym

    def moving(r):
        seen = 0
        while r is not None and seen < 4:
            if isinstance(getattr(r, "strategy", None), LetterSym):
                return True
            r = getattr(r, "original_rule", None)
            seen += 1
        return False

    k = 0
    for rule in spec.rules_dict.values():
        if isinstance(rule, EquivalencePathRule) and len(rule.rules) >= 2:
            if any(moving(r) for r in rule.rules[:-1]):
                k += 1
    return k


class Injected(BaseException):
    """Raised from inside a counting call to interrupt it (stands for Ctrl-C / a timeout)."""


def interrupted_counting(spec, cls_desc, upto, rng, mech="C01:wrong-count-after-interrupted-counting"):
    """Fault injection: on fresh copies of the specification (JSON reload: empty caches) a
    counting call is interrupted at the k-th get_terms call of some rule; the same object is
    then asked again for every size and must still enumerate the start class."""
    import json

    from comb_spec_searcher import CombinatorialSpecification
    from comb_spec_searcher.strategies import rule as rule_mod

    cx = base.ctx()
    try:
        blob = json.dumps(spec.to_jsonable())
    except NotImplementedError:
        return
    orig = rule_mod.AbstractRule.get_terms
    state = {"calls": 0, "at": None}

    def get_terms(self, n):
        state["calls"] += 1
        if state["at"] is not None and state["calls"] == state["at"]:
            raise Injected()
        return orig(self, n)

    rule_mod.AbstractRule.get_terms = get_terms
    try:
        fresh = CombinatorialSpecification.from_dict(json.loads(blob))
        for n in range(upto + 1):
            fresh.get_terms(n)
        total = state["calls"]
        for at in sorted({2, total, rng.randint(1, max(1, total)), rng.randint(1, max(1, total))}):
            fresh = CombinatorialSpecification.from_dict(json.loads(blob))
            state.update(calls=0, at=at)
            try:
                for n in range(upto + 1):
                    fresh.get_terms(n)
                continue
            except Injected:
                pass
            finally:
                state["at"] = None
            cx.count("enum.countings_interrupted")
            for n in range(upto + 1):
                want = rw.norm(rw.terms(cls_desc, n))
                got = rw.norm(fresh.get_terms(n))
                cx.count("enum.sizes_compared_after_interruption")
                if got != want:
                    cx.violation(mech, f"counting interrupted at get_terms call #{at} of {total}, then size {n}: "
                                       f"specification gives {dict(got)}, truth {dict(want)}", {"n": n, "at": at})
    finally:
        rule_mod.AbstractRule.get_terms = orig
