"""C10 – declared shifts bound what a rule actually reads when counting.

Same executions as C09 (vdrive.c09 / vdrive.rulelib): every derived rule form's
constructor.get_terms is called for one size at a time with fresh recording providers, so
nothing is hidden by memoisation; the oracle is evaluated on the *log* of each call:
child i is asked only for sizes <= n - shifts()[i], the rule's own earlier terms only for
sizes < n.
"""
from vdrive import c09
from vdrive.c09 import shard_setup  # noqa: F401

PROPERTY = "C10"
LEVEL = "exploration"
RULE = (
    "case = as C09 (word class with every strategy and every derived form, or rules harvested from a "
    "real search); for each form and size n <= N the sizes requested from every child provider and "
    "from the rule's own terms during ONE constructor.get_terms call are logged and compared with "
    "n - shifts()[i] (children) and n (own terms). non-trivial = a case with a product or quotient "
    "form with non-zero, unequal shifts, or a reverse form; distinct = class fingerprints"
)
LEVEL_TEXT = (
    "exploration: offline checker over the recorded provider-call log of single get_terms calls "
    "(fresh constructor state per call) for every derived rule form"
)
LEVEL_NOTE = "shifts are read from the form itself (EquivalenceRule at child_idx); forms the library refuses to build are counted"
TECHNIQUE = "runtime monitoring: recording providers + log checker against the declared shifts"
ASSUMPTIONS = ["a provider call is the only way a constructor can read a child's terms"]
N = c09.N
FLOORS = {
    "quick": {"nontrivial": 160, "counters": {"reads.calls_checked": 45000, "reads.provider_calls_checked": 90000,
                                               "reads.calls_with_nonzero_shift": 6000},
              "seen": {"rules.form": 6, "rules.constructor": 4}},
    "thorough": {"nontrivial": 4000, "counters": {"reads.calls_checked": 1500000,
                                                   "reads.provider_calls_checked": 2500000,
                                                   "reads.calls_with_nonzero_shift": 200000},
                 "seen": {"rules.form": 6, "rules.constructor": 4}},
}
CASE_TIMEOUT = c09.CASE_TIMEOUT
SIZES = c09.SIZES


def gen_cases(tier, seed):
    return c09.gen_cases(tier, seed, tag="C10")


def run_case(case):
    return {"class": c09.run_class, "search": c09.run_search}[case["kind"]](case, "reads")
