"""C07 – object generation yields exactly the objects of the class, each once; maps round-trip.

spec   – real searches (all databases); for every size <= N the objects generated from the
         returned specification are compared, parameter tuple by parameter tuple and as
         multisets, with brute force (icontract postcondition on get_objects + the driver's
         comparison of generate_objects_of_size and count_objects_of_size).
maps   – every rule form that supports maps (plain, equivalence, reverse-of-equivalence,
         equivalence path) built from generated classes: every object of the parent of size
         <= N is mapped forward; the postcondition on forward_map checks that the parts lie in
         the children and that the real backward_map returns the object.
"""
from collections import Counter

from vdrive import rulelib, searchlib
from vdrive.core import fp
from vmon import base, m_objects
from vref import words as rw
from vuniv import gen, intuniv

PROPERTY = "C07"
LEVEL = "exploration"
RULE = (
    "case kinds: spec = a real search (class x pack x database x schedule); all objects of every size "
    "<= N generated from the specification vs brute force, as multisets per parameter tuple, and the "
    "count; maps = a word class with every strategy and every map-supporting derived form, every parent "
    "object of size <= N mapped forward and back. non-trivial = spec: >= 4 rules, recursive, > 20 objects "
    "compared; maps: a derived form (equivalence / reverse / path) exercised on >= 5 objects; "
    "distinct = case fingerprints"
)
LEVEL_TEXT = (
    "exploration: brute-force object oracle as icontract postconditions on get_objects and on the "
    "forward_map of the four rule forms, over real specifications and generated rule forms"
)
LEVEL_NOTE = (
    "specifications containing a reverse rule that is not an equivalence cannot generate "
    "(NotImplementedError by design): counted, not judged"
)
TECHNIQUE = "runtime contracts (icontract) against a brute-force object enumerator"
ASSUMPTIONS = ["brute-force enumeration of word classes is the ground truth"]
N = {"quick": 6, "thorough": 8}
FLOORS = {
    "quick": {"nontrivial": 250, "counters": {"objects.sizes_compared": 2000, "objects.objects_compared": 20000,
                                               "maps.round_trips_checked": 30000,
                                               "c07.specs_with_path_and_reverse": 5},
              "seen": {"maps.rule_form": 4}},
    "thorough": {"nontrivial": 4500, "counters": {"objects.sizes_compared": 50000, "objects.objects_compared": 1500000,
                                                   "maps.round_trips_checked": 800000,
                                                   "c07.specs_with_path_and_reverse": 100},
                 "seen": {"maps.rule_form": 4}},
}
# W5: the repository's own test suite runs once under these ambient monitors (thorough tier)
W5_MONITORS = ['objects']
CASE_TIMEOUT = {"quick": 60, "thorough": 180}
SIZES = {"quick": (420, 420), "thorough": (8000, 8000)}


def shard_setup(tier):
    searchlib.install_ambient()
    m_objects.install()


def gen_cases(tier, seed):
    ns, nm = SIZES[tier]
    k = 0
    i = 0
    produced = 0
    while produced < ns:
        rng = intuniv.rng_for(seed, "C07s", i)
        i += 1
        case = gen.rand_search_case(rng)
        if rw.is_empty(case["cls"]):
            continue
        if rng.random() < 0.5:
            case["pack"]["sym"] = True
            case["pack"]["inferral"] = ["minimise", "rename"][: rng.randint(1, 2)]
        trng = intuniv.rng_for(seed, "C07s/track", i)
        if trng.random() < 0.2 and not case["cls"].get("flags"):
            # a union whose child carries a statistic the parent does not have (summed out going
            # up); the start class gets few statistics so that the tracked one is visible
            case["pack"]["inferral"] = ["track"] + [x for x in case["pack"]["inferral"] if x != "rename"]
            case["cls"]["stats"] = case["cls"]["stats"][: trng.choice((0, 0, 1))]
            if case["cls"].get("right"):
                case["cls"]["right"]["stats"] = case["cls"]["stats"]
            if case["pack"]["ver"] in ("libatom", "subatom"):
                case["pack"]["ver"] = "stat"  # the library's atom strategy refuses classes with statistics
        case["schedule"] = searchlib.rand_schedule(rng, iterative=case["pack"]["iterative"])
        case.update(kind="spec", id=k, N=N[tier])
        k += 1
        produced += 1
        yield case
    for i in range(nm):
        rng = intuniv.rng_for(seed, "C07m", i)
        cls = gen.rand_class(rng, bytes_p=0)
        cls["proper"] = rng.random() < 0.25
        yield {"id": k, "kind": "maps", "cls": cls, "seed": f"{seed}/C07m/{i}", "N": N[tier]}
        k += 1


class Injected(BaseException):
    """Raised from inside an object map to interrupt a generation call (stands for Ctrl-C, a
    timeout signal, an exception of a strategy's backward map)."""


def interrupted_generation(spec, desc, names, upto, rng):
    """Fault injection: on fresh copies of the specification (JSON reload: empty caches), a
    generation call is interrupted at the k-th backward map; the same specification object is
    then asked again for every size and must still give exactly the objects."""
    import json

    from comb_spec_searcher import CombinatorialSpecification
    from comb_spec_searcher.strategies import rule as rule_mod

    cx = base.ctx()
    blob = json.dumps(spec.to_jsonable())
    orig = rule_mod.Rule.backward_map
    state = {"calls": 0, "at": None}

    def backward_map(self, objs):
        state["calls"] += 1
        if state["at"] is not None and state["calls"] == state["at"]:
            raise Injected()
        return orig(self, objs)

    rule_mod.Rule.backward_map = backward_map
    try:
        fresh = CombinatorialSpecification.from_dict(json.loads(blob))
        for n in range(upto + 1):
            fresh.get_objects(n)
        total = state["calls"]
        if total == 0:
            return
        for at in sorted({1, total, rng.randint(1, total), rng.randint(1, total)}):
            fresh = CombinatorialSpecification.from_dict(json.loads(blob))
            state.update(calls=0, at=at)
            try:
                for n in range(upto + 1):
                    fresh.get_objects(n)
                interrupted = False
            except Injected:
                interrupted = True
            state["at"] = None
            if not interrupted:
                continue
            cx.count("c07.generations_interrupted")
            for n in range(upto + 1):
                fresh.get_objects(n)  # postcondition: exact
                for p, ws in rw.objects_by_params(desc, n).items():
                    got = Counter(map(str, fresh.generate_objects_of_size(n, **dict(zip(names, p)))))
                    cx.count("c07.generate_calls_compared_after_interruption")
                    if got != Counter(ws):
                        cx.violation("C07:objects-wrong-after-interrupted-generation",
                                     f"generation interrupted at backward map #{at} of {total}, then size {n} "
                                     f"params {p}: generated {dict(got)}, truth {sorted(ws)}", {"n": n, "at": at})
    finally:
        rule_mod.Rule.backward_map = orig


def run_spec(case):
    cx = base.ctx()
    res = searchlib.run_search(case)
    if res.outcome != "spec":
        return {"skip": "no specification"}
    spec = res.spec
    prof = searchlib.spec_profile(spec)
    desc = case["cls"]
    names = rw.stat_names(desc)
    compared = 0
    try:
        for n in range(case["N"] + 1):
            spec.get_objects(n)  # postcondition: exact
            for p, ws in rw.objects_by_params(desc, n).items():
                params = dict(zip(names, p))
                got = Counter(map(str, spec.generate_objects_of_size(n, **params)))
                cx.count("c07.generate_calls_compared")
                if got != Counter(ws):
                    cx.violation("C07:generate-objects-of-size-wrong",
                                 f"size {n} params {params}: generated {dict(got)}, truth {sorted(ws)}", {"n": n})
                if len(names) >= 2:
                    # keyword order must not matter
                    rev = dict(reversed(list(params.items())))
                    got_rev = Counter(map(str, spec.generate_objects_of_size(n, **rev)))
                    cx.count("c07.generate_calls_with_reversed_keyword_order")
                    if got_rev != Counter(ws):
                        cx.violation("C07:generate-objects-of-size-wrong",
                                     f"size {n} params {rev} (keywords in reverse order): generated {dict(got_rev)}, "
                                     f"truth {sorted(ws)}", {"n": n})
                cnt = spec.count_objects_of_size(n, **params)
                if sum(got.values()) != cnt:
                    cx.violation("C07:count-differs-from-generated",
                                 f"size {n} params {params}: {sum(got.values())} objects generated, count says {cnt}",
                                 {"n": n})
                compared += len(ws)
    except NotImplementedError:
        cx.count("c07.specs_not_generating_not_judged")
        return {"skip": "specification cannot generate (reverse rule that is not an equivalence)"}
    cx.count("c07.specs_generating")
    if intuniv.rng_for("c07/inject", case["id"]).random() < 0.35:
        interrupted_generation(spec, desc, names, min(case["N"], 5), intuniv.rng_for("c07/inject-k", case["id"]))
    if "EquivalencePathRule+reverse" in prof["kinds"]:
        cx.count("c07.specs_with_path_and_reverse")
    cx.see("db", case["db"])
    return {"nontrivial": prof["rules"] >= 4 and prof["recursive"] and compared > 20, "fingerprint": fp(case)}


def _exercise(name, form, upto):
    cx = base.ctx()
    parent = rw.desc_of(form.comb_class)
    n_obj = 0
    try:
        for n in range(upto + 1):
            for w in rw.objects(parent, n):
                from vuniv.words import W

                form.forward_map(W(w))  # postcondition: parts in children + round trip
                n_obj += 1
    except NotImplementedError:
        cx.count("maps.forms_without_maps_not_judged")
        return 0
    cx.count("maps.forms_exercised:" + name.split("[")[0])
    return n_obj


def run_maps(case):
    cx = base.ctx()
    rng = intuniv.rng_for(case["seed"], "run")
    c = gen.build_class(case["cls"])
    derived = 0
    for strat in rulelib.strategies_for(rng):
        rule = rulelib.apply(strat, c)
        if rule is None:
            continue
        for name, form, reason in rulelib.forms(rule):
            if form is None or name.startswith("reverse[") and len(rule.children) > 1:
                continue  # reverse w.r.t. a child of a wide rule has no maps
            if rw.is_empty(rw.desc_of(form.comb_class)):
                continue
            k = _exercise(name, form, case["N"])
            if name != "plain" and k >= 5:
                derived += 1
    for name, form, reason in rulelib.chains(c, rng):
        if form is None or rw.is_empty(rw.desc_of(form.comb_class)):
            continue
        if _exercise(name, form, case["N"]) >= 5:
            derived += 1
    return {"nontrivial": derived >= 1, "fingerprint": fp(case["cls"])}


def run_case(case):
    return {"spec": run_spec, "maps": run_maps}[case["kind"]](case)
