"""C06 – equivalence classes are exactly the strongly connected components.

Workload W4: operation histories on a real EquivalenceDB (edges one-/two-way, marks,
cycle detections, queries), random with mixes that produce cross edges into merged
components, long one-way cycles closed by the last edge, marks before and after merges;
thorough adds all histories of <= 5 edge/mark operations over 3 labels.  Deciding
monitors: icontract postconditions of vmon.m_equiv on connect_cycles / equivalent /
is_verified / find_path, fed by recording wrappers on the mutators.
"""
import itertools

from vdrive.core import fp
from vmon import base, m_equiv
from vuniv import intuniv

PROPERTY = "C06"
LEVEL = "exploration"
RULE = (
    "case = one history of 5-45 operations (one-way edge, two-way edge, mark verified, cycle "
    "detection, equivalent?/is_verified?/find_path queries) over 3-12 labels on a real "
    "EquivalenceDB; after every cycle detection all label pairs are compared with R-scc and "
    "between detections every answer is bounded (what two-way edges / earlier detections "
    "oblige <= answer <= mutual reachability). non-trivial = a component of >= 3 labels closed "
    "by one-way edges only, or a mark carried across a merge; distinct = distinct histories"
)
LEVEL_TEXT = (
    "exploration: reference-model (Tarjan SCC over the recorded edges) postconditions on the "
    "real EquivalenceDB at its client boundary, over random and small-exhaustive histories"
)
LEVEL_NOTE = (
    "completeness is judged only after a cycle detection (the statement's quantifier; between "
    "detections only soundness and retention are judged); label universes <= 12"
)
TECHNIQUE = "runtime contracts (icontract) + recording wrappers against an SCC reference model"
ASSUMPTIONS = ["the recorded edge log (taken at the public mutators) is the ground truth for reachability"]
FLOORS = {
    "quick": {"nontrivial": 400, "counters": {"equiv.pairs_compared_after_detection": 50000,
                                               "equiv.paths_checked_nontrivial": 2000,
                                               "equiv.is_verified_checked": 5000}},
    "thorough": {"nontrivial": 8000, "counters": {"equiv.pairs_compared_after_detection": 1000000,
                                                   "equiv.paths_checked_nontrivial": 40000,
                                                   "c06.exhaustive_histories": 10000}},
}
# W5: the repository's own test suite runs once under these ambient monitors (thorough tier)
W5_MONITORS = ['equiv']
CASE_TIMEOUT = {"quick": 30, "thorough": 60}
SIZES = {"quick": 4000, "thorough": 60000}
EXHAUSTIVE = {"quick": False, "thorough": False}


def shard_setup(tier):
    m_equiv.install()


def _history(rng):
    n = rng.randint(3, 12)
    length = rng.randint(5, 45)
    style = rng.choice(("mixed", "cycle", "cross", "marks", "dense"))
    ops = []
    labs = list(range(n))
    if style == "cycle":
        # long one-way cycle closed by the last edge, with distractions
        k = rng.randint(3, n)
        cyc = rng.sample(labs, k)
        edges = [("one", cyc[i], cyc[(i + 1) % k]) for i in range(k)]
        closing = edges.pop(rng.randrange(k))
        rng.shuffle(edges)
        ops += edges
        for _ in range(rng.randint(0, 4)):
            ops.append(rng.choice((("mark", rng.choice(cyc)), ("cc",), ("ver", rng.choice(labs)))))
        ops.append(closing)
        ops.append(("cc",))
    while len(ops) < length:
        r = rng.random()
        a, b = rng.choice(labs), rng.choice(labs)
        if style == "cross" and r < 0.3 and ops:
            # edge into / out of something already touched
            prev = [o for o in ops if o[0] in ("one", "two")]
            if prev:
                a = rng.choice(prev)[rng.choice((1, 2))]
        if r < 0.32:
            ops.append(("one", a, b))
        elif r < (0.5 if style != "dense" else 0.6):
            ops.append(("two", a, b))
        elif r < (0.62 if style != "marks" else 0.75):
            ops.append(("mark", a))
        elif r < 0.74:
            ops.append(("cc",))
        elif r < 0.84:
            ops.append(("eq", a, b))
        elif r < 0.92:
            ops.append(("ver", a))
        else:
            ops.append(("path", a, b))
    ops.append(("cc",))
    for _ in range(rng.randint(1, 4)):
        ops.append(("path", rng.choice(labs), rng.choice(labs)))
    return [list(o) for o in ops], n


def gen_cases(tier, seed):
    for i in range(SIZES[tier]):
        rng = intuniv.rng_for(seed, "C06", i)
        ops, n = _history(rng)
        yield {"id": i, "kind": "random", "ops": ops, "n": n}
    if tier == "thorough":
        # all histories of exactly 5 mutating operations over 3 labels (with a detection
        # and all queries after every operation), in blocks
        alphabet = [["one", a, b] for a in range(3) for b in range(3) if a != b]
        alphabet += [["two", a, b] for a in range(3) for b in range(a + 1, 3)]
        alphabet += [["mark", a] for a in range(3)]
        block, k = [], 0
        for hist in itertools.product(alphabet, repeat=4):
            block.append([list(o) for o in hist])
            if len(block) == 400:
                yield {"id": f"x{k}", "kind": "exhaustive", "block": block, "n": 3}
                block, k = [], k + 1
        if block:
            yield {"id": f"x{k}", "kind": "exhaustive", "block": block, "n": 3}


def _run_history(ops, n, probe_all=False):
    from comb_spec_searcher.equiv_db import EquivalenceDB

    cx = base.ctx()
    m_equiv.reset()
    db = EquivalenceDB()
    for op in ops:
        kind = op[0]
        if kind == "one":
            db.add_one_way_edge(op[1], op[2])
        elif kind == "two":
            db.add_two_way_edge(op[1], op[2])
        elif kind == "mark":
            db.set_verified(op[1])
        elif kind == "cc":
            db.connect_cycles()
        elif kind == "eq":
            db.equivalent(op[1], op[2])
        elif kind == "ver":
            db.is_verified(op[1])
        elif kind == "path":
            _path(db, op[1], op[2])
        if probe_all:
            for a in range(n):
                db.is_verified(a)
                for b in range(n):
                    db.equivalent(a, b)
            db.connect_cycles()
            for a in range(n):
                for b in range(n):
                    _path(db, a, b)
    sh = m_equiv.shadow_of(db)
    # non-triviality: a component >= 3 whose labels are not all joined by two-way edges alone
    comp = sh.comp()
    from vref.graphs import UnionFind

    uf = UnionFind()
    for a, b in sh.edges:
        if (b, a) in sh.edges:
            uf.union(a, b)
    sizes = {}
    for lab, c in comp.items():
        sizes.setdefault(c, set()).add(lab)
    one_way_comp = any(len(m) >= 3 and len({uf.find(x) for x in m}) > 1 for m in sizes.values())
    carried = any(len(m) >= 2 and (m & sh.marks) and (m - sh.marks) for m in sizes.values())
    if one_way_comp:
        cx.count("c06.histories_with_one_way_component")
    if carried:
        cx.count("c06.histories_with_mark_carried")
    return one_way_comp or carried


def _path(db, a, b):
    cx = base.ctx()
    eq = db.equivalent(a, b)
    try:
        db.find_path(a, b)
        if not eq:
            cx.violation("C06:path-for-non-equivalent",
                         f"find_path({a},{b}) returned although equivalent() is False", None)
    except KeyError:
        if eq:
            cx.violation("C06:no-path-for-equivalent",
                         f"find_path({a},{b}) raised KeyError although equivalent() is True", None)


def run_case(case):
    cx = base.ctx()
    if case["kind"] == "exhaustive":
        nt = False
        for hist in case["block"]:
            nt = _run_history(hist, 3, probe_all=True) or nt
            cx.count("c06.exhaustive_histories")
        return {"nontrivial": nt, "fingerprint": fp(case["block"][0])}
    nt = _run_history(case["ops"], case["n"])
    cx.count("c06.random_histories")
    return {"nontrivial": nt, "fingerprint": fp(case["ops"])}
