"""C20 – equations and generating functions agree with the true enumeration.

eqs   – real searches (0-2 statistics, all rule forms incl. path and reverse rules from the
        forest database, closed forms of verification strategies); every equation emitted by
        get_equations() is tested: every applied class function F_j(args) is replaced by the
        true truncated series of class j (R-series, brute force) evaluated at args; the
        numerator of lhs - rhs must vanish modulo x^(N+1).
genf  – statistic-free searches with few rules: get_genf() under a wall-clock watchdog; the
        Taylor coefficients of the closed form up to order N' = 12 (twice the order the
        library itself checks) must equal the true counts.
"""
import sympy

from vdrive import searchlib
from vdrive.core import fp
from vmon import base
from vref import words as rw
from vuniv import gen, intuniv

PROPERTY = "C20"
LEVEL = "exploration"
RULE = (
    "case kinds: eqs = a real search (class with 0-2 statistics x pack x database); each equation of the "
    "returned specification is checked by substituting true truncated series (order N) for every class "
    "function and requiring the numerator of the residual to vanish modulo x^(N+1), the label of every class has to lead back to that class, and the same is judged on the specification after its verified classes were expanded; genf = a "
    "statistic-free search with <= 12 rules, get_genf() solved by sympy under a watchdog and its Taylor "
    "coefficients compared with brute-force counts to order 12. non-trivial = eqs: >= 4 equations incl. a "
    "product or a non-plain rule form; genf: a closed form was returned for a recursive specification; "
    "distinct = case fingerprints"
)
LEVEL_TEXT = (
    "exploration: true truncated series (brute force) substituted into every emitted equation; "
    "closed forms Taylor-expanded beyond the order used to select them"
)
LEVEL_NOTE = (
    "NOTIMPLEMENTED placeholder equations are counted, not judged; sympy is trusted for polynomial "
    "arithmetic and series; get_genf timeouts are inconclusive for that case"
)
TECHNIQUE = "runtime monitoring: residual test of emitted equations against brute-force series"
ASSUMPTIONS = ["sympy's expand/together/series are correct"]
N = {"quick": 7, "thorough": 9}
FLOORS = {
    "quick": {"nontrivial": 150, "counters": {"eq.equations_checked": 3000, "eq.equations_with_parameters": 800,
                                               "eq.form_equations_checked": 1500,
                                               "genf.closed_forms_checked": 25},
              "seen": {"eq.rule_form": 5, "eq.constructor": 4}, "max_inconclusive_frac": 0.25},
    "thorough": {"nontrivial": 3000, "counters": {"eq.equations_checked": 60000, "eq.equations_with_parameters": 16000,
                                                   "genf.closed_forms_checked": 500},
                 "seen": {"eq.rule_form": 5}, "max_inconclusive_frac": 0.25},
}
CASE_TIMEOUT = {"quick": 45, "thorough": 90}
SIZES = {"quick": (600, 100, 300), "thorough": (9000, 1500, 6000)}
x = sympy.var("x")


def shard_setup(tier):
    searchlib.install_ambient()


def gen_cases(tier, seed):
    ne, ng, nf = SIZES[tier]
    k = 0
    for i in range(nf):
        rng = intuniv.rng_for(seed, "C20f", i)
        cls = gen.rand_class(rng, bytes_p=0, max_stats=2)
        cls["proper"] = rng.random() < 0.25
        if rng.random() < 0.6:
            cls["prefix"] = "".join(rng.choice(cls["alphabet"]) for _ in range(rng.randint(1, 3)))
        yield {"id": k, "kind": "forms", "cls": cls, "seed": f"{seed}/C20f/{i}", "N": N[tier]}
        k += 1
    i = 0
    produced = 0
    while produced < ne:
        rng = intuniv.rng_for(seed, "C20e", i)
        i += 1
        case = gen.rand_search_case(rng, max_stats=2, max_alpha=2 if rng.random() < 0.8 else 3)
        if rw.is_empty(case["cls"]):
            continue
        case["schedule"] = {"mode": "drain", "rng_seed": rng.randrange(10 ** 6), "tree_k": 1, "perc": 1,
                            "smallest": False}
        vrng = intuniv.rng_for(seed, "C20e/ver", i)
        if vrng.random() < 0.3:
            # verified classes to be expanded afterwards, behind equivalences where possible
            case["pack"]["ver"] = vrng.choice(("prefix1", "prefix2"))
            case["pack"]["nest"] = vrng.choice((0, 1, 1, 2))
            if vrng.random() < 0.7:
                # two-step expansions outside, one-step expansions in the offered pack: classes
                # below a verified class that also occur elsewhere get a second rule to choose
                # from, and some classes of the original do not survive the expansion
                case["pack"]["twice"] = vrng.choice(([0], [1], [0, 1]))
                case["pack"]["factory"] = None
            if vrng.random() < 0.6:
                case["pack"]["inferral"] = vrng.choice((["minimise"], ["rename"], ["merge"], ["rename", "minimise"]))
        case.update(kind="eqs", id=k, N=N[tier])
        k += 1
        produced += 1
        yield case
    i = 0
    produced = 0
    while produced < ng:
        rng = intuniv.rng_for(seed, "C20g", i)
        i += 1
        case = gen.rand_search_case(rng, max_stats=0, max_alpha=2, allow_iterative=False)
        if rw.is_empty(case["cls"]) or case["cls"]["stats"]:
            continue
        if len(case["cls"]["patterns"]) > 2 or any(len(p) > 3 for p in case["cls"]["patterns"]):
            continue
        case["pack"]["sym"] = False
        case["pack"]["factory"] = None
        case["schedule"] = {"mode": "drain", "rng_seed": 0, "tree_k": 3, "perc": 1, "smallest": True}
        case["db"] = rng.choice(("base", "forest"))
        if case["db"] == "forest":
            case["schedule"]["smallest"] = False
        case.update(kind="genf", id=k, N=12)
        k += 1
        produced += 1
        yield case


_SERIES = {}


def true_series(desc, upto):
    key = (rw.key(desc), upto)
    if key not in _SERIES:
        names = rw.stat_names(desc)
        syms = [sympy.var(k) for k in names]
        e = sympy.Integer(0)
        for n in range(upto + 1):
            for p, v in rw.terms(desc, n).items():
                t = sympy.Integer(v) * x ** n
                for s, val in zip(syms, p):
                    t *= s ** val
                e += t
        _SERIES[key] = e
    return _SERIES[key]


def residual_vanishes(spec, eq, upto):
    """None if the equation holds to order `upto`, else a description."""
    from sympy.core.function import AppliedUndef

    # Clear denominators *before* substituting (the class functions are opaque there, so
    # nothing cancels): the residual lhs*den - num is then polynomial in the class functions,
    # and replacing each by its true series modulo x^(N+1) leaves it exact modulo x^(N+1).
    num_r, den_r = sympy.fraction(sympy.together(eq.rhs))
    num_l, den_l = sympy.fraction(sympy.together(eq.lhs))
    e = num_l * den_r - num_r * den_l
    sub = {}
    for f in e.atoms(AppliedUndef):
        lab = int(str(f.func).split("_")[1])
        c = spec.get_comb_class(lab)
        desc = rw.desc_of(c)
        formal = [x] + [sympy.var(k) for k in c.extra_parameters]
        if len(f.args) != len(formal):
            return f"{f} has {len(f.args)} arguments, class has {len(formal)} variables"
        t = true_series(desc, upto)
        sub[f] = t.subs(dict(zip(formal, f.args)), simultaneous=True)
    num = sympy.expand(e.subs(sub))
    if num == 0:
        return None
    if not num.is_polynomial(x):
        return f"residual is not polynomial in x after clearing denominators: {num}"
    poly = sympy.Poly(num, x)
    for (d,), coef in poly.terms():
        if d <= upto and sympy.expand(coef) != 0:
            return f"coefficient of x^{d} in the residual is {sympy.expand(coef)}"
    return None


def run_eqs(case):
    cx = base.ctx()
    res = searchlib.run_search(case)
    if res.outcome != "spec":
        return {"skip": "no specification"}
    spec = res.spec
    prof = searchlib.spec_profile(spec)
    judged = judge_equations(spec, case["N"])
    # ... and the equations of the specification after its verified classes were expanded (the
    # classes that survive the expansion and the new ones share one numbering)
    from comb_spec_searcher.exception import InvalidOperationError
    from comb_spec_searcher.strategies.rule import VerificationRule

    def offers_pack(rule):
        try:
            rule.pack()
        except InvalidOperationError:
            return False
        return True

    if any(isinstance(r, VerificationRule) and offers_pack(r) for r in spec.rules_dict.values()):
        expanded = spec.expand_verified()
        cx.count("eq.expanded_specifications_judged")
        judge_equations(expanded, case["N"], tag=":after-expansion")
    for k in prof["kinds"]:
        cx.see("eq.rule_form", k.split(":")[0])
    interesting = any(k.startswith(("Rule:RemoveFront", "EquivalencePathRule", "ReverseRule", "EquivalenceRule"))
                      for k in prof["kinds"])
    return {"nontrivial": judged >= 4 and interesting, "fingerprint": fp(case)}


def judge_equations(spec, upto, tag=""):
    cx = base.ctx()
    eqs = list(spec.get_equations())
    judged = 0
    # F_l has to mean one class: the label of every class of the specification leads back to it
    for c in spec.rules_dict:
        lab = spec.get_label(c)
        back = spec.get_comb_class(lab)
        cx.count("eq.labels_checked")
        if back != c:
            cx.violation("C20:one-function-for-two-classes" + tag,
                         f"F_{lab} stands for {c!r} and for {back!r}", {"label": lab})
    for eq in eqs:
        if "NOTIMPLEMENTED" in str(eq):
            cx.count("eq.notimplemented_not_judged")
            continue
        err = residual_vanishes(spec, eq, upto)
        cx.count("eq.equations_checked")
        judged += 1
        if len(eq.lhs.args) > 1:
            cx.count("eq.equations_with_parameters")
        if err:
            lab = int(str(eq.lhs.func).split("_")[1])
            rule = spec.get_rule(spec.get_comb_class(lab))
            cx.violation(f"C20:equation-not-satisfied:{type(rule).__name__}" + tag,
                         f"{eq} ({type(rule).__name__}, {rule.formal_step}): {err}",
                         {"equation": str(eq), "class": repr(spec.get_comb_class(lab))})
    return judged


def run_genf(case):
    from comb_spec_searcher.exception import IncorrectGeneratingFunctionError

    cx = base.ctx()
    res = searchlib.run_search(case)
    if res.outcome != "spec":
        return {"skip": "no specification"}
    spec = res.spec
    prof = searchlib.spec_profile(spec)
    if prof["rules"] > 12:
        return {"skip": "more than 12 rules"}
    try:
        genf = spec.get_genf()
    except NotImplementedError:
        cx.count("genf.not_implemented_not_judged")
        return {"skip": "get_genf not implemented for this specification"}
    except IncorrectGeneratingFunctionError:
        cx.count("genf.no_solution_matched_not_judged")
        return {"skip": "no solution matched the initial conditions"}
    upto = case["N"]
    ser = sympy.series(genf, x, 0, upto + 1).removeO()
    poly = sympy.Poly(ser, x) if ser != 0 else None
    cx.count("genf.closed_forms_checked")
    for n in range(upto + 1):
        want = sum(rw.terms(case["cls"], n).values())
        got = poly.coeff_monomial(x ** n) if poly is not None else 0
        cx.count("genf.coefficients_compared")
        if sympy.simplify(got - want) != 0:
            cx.violation("C20:closed-form-coefficient-wrong",
                         f"get_genf() = {genf}: coefficient of x^{n} is {got}, true count {want}",
                         {"genf": str(genf), "n": n})
    return {"nontrivial": prof["recursive"], "fingerprint": fp(case)}


class _Labels:
    """Just enough of a specification for residual_vanishes: class <-> label."""

    def __init__(self):
        self.by_class, self.by_label = {}, {}

    def get_label(self, c):
        if c not in self.by_class:
            self.by_class[c] = len(self.by_class)
            self.by_label[self.by_class[c]] = c
        return self.by_class[c]

    def get_function(self, c):
        return c.get_function(self.get_label)

    def get_comb_class(self, label):
        return self.by_label[label]


def run_forms(case):
    """Equations of single rule forms (reverse forms included: complement and quotient
    equations occur in searches only when a reverse rule is indispensable)."""
    from vdrive import rulelib

    cx = base.ctx()
    rng = intuniv.rng_for(case["seed"], "run")
    c = gen.build_class(case["cls"])
    derived = 0
    todo = []
    for strat in rulelib.strategies_for(rng):
        if type(strat).__name__ == "TrackStat":
            # a union child with a parameter the parent does not have: outside the documented
            # parameter contract of DisjointUnion (its equation leaves that variable free);
            # counting and generation are judged by C09/C07, the equation is not judged
            cx.count("eq.child_parameter_without_parent_not_judged")
            continue
        rule = rulelib.apply(strat, c)
        if rule is not None:
            todo.extend(rulelib.forms(rule))
    todo.extend(rulelib.chains(c, rng))
    for name, form, reason in todo:
        if form is None or rw.is_empty(rw.desc_of(form.comb_class)):
            continue
        labels = _Labels()
        try:
            eq = form.get_equation(labels.get_function)
        except NotImplementedError:
            cx.count("eq.form_equation_not_implemented")
            continue
        if isinstance(eq, bool) or eq in (sympy.true, sympy.false):
            if eq is False or eq == sympy.false:
                cx.violation("C20:form-equation-false", f"{name} of {form.strategy!r}: equation is False", None)
            continue
        err = residual_vanishes(labels, eq, case["N"])
        cx.count("eq.equations_checked")
        cx.count("eq.form_equations_checked")
        cx.see("eq.rule_form", type(form).__name__)
        cx.see("eq.constructor", type(form.constructor).__name__)
        if len(eq.lhs.args) > 1:
            cx.count("eq.equations_with_parameters")
        if err:
            cx.violation(f"C20:equation-not-satisfied:{type(form).__name__}:{type(form.constructor).__name__}",
                         f"{name} of {form.strategy!r} on {form.comb_class!r}: {eq}: {err}",
                         {"equation": str(eq)})
        if name != "plain":
            derived += 1
    return {"nontrivial": derived >= 2, "fingerprint": fp(case["cls"])}


def run_case(case):
    return {"eqs": run_eqs, "genf": run_genf, "forms": run_forms}[case["kind"]](case)
