"""C05 – pruning-based detection and proof-tree search are exact.

Three workloads:
  dict   – random rules dictionaries fed directly to the module-level functions of
           tree_searcher (prune, iterative_prune and all seven finders); results judged
           by R-gfp / R-iter / R-tree / exhaustive minimum.
  table  – integer universes wrapped as real strategies, driven through the real searcher
           and RuleDB / RuleDBForgetStrategy; has_specification() is polled after every
           work packet (so the pruned-dict cache is exercised) and judged by the icontract
           postcondition of vmon.m_ruledb over the recorded `add` log; then
           _get_specification_node (random and smallest) is judged.
  words  – real W1 searches (symmetries on, so that the start class sits in a bigger
           equivalence class; recursive and iterative packs); every has_specification
           call of the search is judged by the same postcondition.
"""
import copy

from vdrive import searchlib
from vdrive.core import fp
from vmon import base, clock as vclock, m_ruledb, m_search, rng as vrng
from vref import graphs
from vref import words as rw
from vuniv import gen, intuniv, table

PROPERTY = "C05"
LEVEL = "exploration"
RULE = (
    "case kinds: dict = a random rules dictionary (3-8 labels, <=4 rules per label, arity 0-3) given "
    "to prune / iterative_prune / the seven proof-tree finders (dicts = the small-scope exhaustive "
    "layer: every dictionary over two labels with <= 3 rules of arity <= 2 per label and both roots; "
    "thorough: also every dictionary over three labels with <= 2 rules per label); table = a random integer universe "
    "wrapped as strategies and searched with the real searcher + default or memory-saving rule "
    "database (with twin single-child rows and overlapping one-way cycles), has_specification polled (a third of the searches also with polls interrupted inside the pruning by a BaseException and asked again) "
    "after every k-th work packet (k = 1, 2, 3, 5 or only at the end); words = a real word-universe "
    "search (symmetries, inferral, iterative) with every has_specification call judged. "
    "non-trivial = dict: a root tree exists and >= 2 finders returned trees with > 3 nodes; "
    "table/words: the reference answered both False and True during the run, or the start label is "
    "not its class representative; distinct = case fingerprints"
)
LEVEL_TEXT = (
    "exploration: greatest-fixed-point / bottom-up derivability / tree-validity / exhaustive-minimum "
    "oracles evaluated (as icontract postconditions on the real rule database and directly on the "
    "tree_searcher functions) on generated universes and on every poll of real searches"
)
LEVEL_NOTE = "universes <= 8 labels for the exhaustive minimum; has_specification judged only for databases whose whole add history was recorded"
TECHNIQUE = "runtime contracts + recorded add log against fixed-point reference models"
ASSUMPTIONS = [
    "a proof tree is determined by a choice of one rule per reachable label; its size is the number of nodes",
]
FLOORS = {
    "quick": {"nontrivial": 300, "counters": {"c05.trees_checked": 5000, "ruledb.has_spec_compared": 4000,
                                               "ruledb.has_spec_compared_true": 300,
                                               "ruledb.has_spec_compared_iterative": 200,
                                               "ruledb.smallest_compared": 100,
                                               "c05.smallest_direct_compared": 200,
                                               "c05.exhaustive_dictionaries": 3528}},
    "thorough": {"nontrivial": 6000, "counters": {"c05.trees_checked": 100000, "ruledb.has_spec_compared": 80000,
                                                   "ruledb.has_spec_compared_iterative": 4000,
                                                   "ruledb.smallest_compared": 2000,
                                                   "c05.exhaustive_dictionaries": 170000}},
}
# W5: the repository's own test suite runs once under these ambient monitors (thorough tier)
W5_MONITORS = ['ruledb']
CASE_TIMEOUT = {"quick": 60, "thorough": 120}
SIZES = {"quick": (700, 350, 250), "thorough": (14000, 7000, 5000)}


def shard_setup(tier):
    searchlib.install_ambient()
    m_ruledb.install()


def _rand_dict(rng):
    n = rng.randint(3, 8)
    rd = {}
    for lab in range(n):
        rules = set()
        for _ in range(rng.choice((0, 1, 1, 2, 2, 3, 4))):
            arity = rng.choice((0, 1, 1, 2, 2, 3))
            rules.add(tuple(sorted(rng.randrange(n) for _ in range(arity))))
        if rules:
            rd[lab] = sorted(rules)
    return {"n": n, "rules": {str(k): [list(r) for r in v] for k, v in rd.items()}, "root": rng.randrange(n)}


def gen_exhaustive_dicts(labels, max_rules, block=250):
    """Every rules dictionary over `labels` labels whose rules have arity <= 2, at most
    `max_rules` rules per label (root 0; two labels: both roots), in blocks."""
    import itertools

    rules = [()] + [(a,) for a in range(labels)] + \
            [(a, b) for a in range(labels) for b in range(a, labels)]
    per_label = [c for r in range(max_rules + 1) for c in itertools.combinations(rules, r)]
    cur, k = [], 0
    for choice in itertools.product(per_label, repeat=labels):
        d = {str(l): [list(r) for r in rs] for l, rs in enumerate(choice) if rs}
        for root in (range(labels) if labels == 2 else (0,)):
            cur.append({"n": labels, "rules": d, "root": root})
            if len(cur) == block:
                yield {"id": f"x{labels}.{k}", "kind": "dicts", "dicts": cur, "rng_seed": k}
                cur, k = [], k + 1
    if cur:
        yield {"id": f"x{labels}.{k}", "kind": "dicts", "dicts": cur, "rng_seed": k}


def gen_cases(tier, seed):
    nd, nt, nw = SIZES[tier]
    # small-scope exhaustive layer: all dictionaries over two labels (<= 3 rules per label);
    # thorough: also all over three labels with <= 2 rules per label
    yield from gen_exhaustive_dicts(2, 3)
    if tier == "thorough":
        yield from gen_exhaustive_dicts(3, 2)
    k = 0
    for i in range(nd):
        rng = intuniv.rng_for(seed, "C05d", i)
        yield {"id": k, "kind": "dict", "dict": _rand_dict(rng), "rng_seed": rng.randrange(10 ** 6)}
        k += 1
    for i in range(nt):
        rng = intuniv.rng_for(seed, "C05t", i)
        tb = table.random_table(rng)
        crng = intuniv.rng_for(seed, "C05t/cycles", i)
        if crng.random() < 0.45:
            # overlapping directed cycles of one-way single-child rows (a short cycle merged
            # first, a longer one closing through an absorbed label), twin rows
            for _ in range(crng.randint(1, 3)):
                table.add_one_way_cycle(crng, tb)
            if crng.random() < 0.4:
                table.add_twin_unary_rows(crng, tb)
            if crng.random() < 0.6:
                if crng.random() < 0.5:  # few other rules: the cycle decides the answer
                    tb["rows"] = [r for r in tb["rows"] if crng.random() < 0.4]
                table.add_overlapping_cycles(crng, tb)
        yield {"id": k, "kind": "table", "table": tb, "poll_every": crng.choice((1, 1, 2, 3, 5, 1000)),
               "interrupt_polls": crng.random() < 0.3,
               "iterative": rng.random() < 0.35, "db": rng.choice(("base", "base", "forget")),
               "root": 0, "sets": rng.choice((1, 2)), "rng_seed": rng.randrange(10 ** 6),
               "smallest": rng.random() < 0.5}
        k += 1
    i = 0
    produced = 0
    while produced < nw:
        rng = intuniv.rng_for(seed, "C05w", i)
        i += 1
        case = gen.rand_search_case(rng)
        if rw.is_empty(case["cls"]):
            continue
        case["db"] = rng.choice(("base", "base", "forget"))
        case["pack"]["sym"] = rng.random() < 0.75
        case["pack"]["iterative"] = rng.random() < 0.4
        case["schedule"] = {"mode": "sliced", "costs": [rng.choice((0.001, 0.001, 1.5, 3.5))],
                            "rng_seed": rng.randrange(10 ** 6), "tree_k": rng.choice((0, 2)),
                            "smallest": (not case["pack"]["iterative"]) and rng.random() < 0.4, "perc": 1}
        case["kind"] = "words"
        case["id"] = k
        k += 1
        produced += 1
        yield case


# --------------------------------------------------------------------------- dict kind


def _tree_ok(name, tree, rd, root, iterative=False):
    cx = base.ctx()
    cx.count("c05.trees_checked")
    cx.see("finder", name)
    err = graphs.tree_check(tree, rd, root, allow_root_leaf=iterative)
    if err:
        kind = "two-rules-for-one-label" if "two different rules" in err else "invalid"
        cx.violation(f"C05:invalid-proof-tree:{name}:{kind}", f"{name}: {err}",
                     {"rules": {str(k): sorted(map(list, v)) for k, v in rd.items()}, "root": root,
                      "tree": str(tree)}, raise_=False)
        return False
    return True


def _first_rule_acyclic(rd, root):
    """Does following the first (sorted) rule of every label from the root terminate?"""
    state = {}

    def visit(lab):
        if lab == root and state:
            return True
        if state.get(lab) == 1:
            return False
        if state.get(lab) == 2:
            return True
        state[lab] = 1
        for c in sorted(rd[lab])[0]:
            if c == root:
                continue
            if not visit(c):
                return False
        state[lab] = 2
        return True

    return visit(root)


def run_dict(case):
    from comb_spec_searcher import tree_searcher as ts

    cx = base.ctx()
    vrng.install()
    vrng.set_rng(vrng.ScriptedRNG(case["rng_seed"]))
    vclock.install(vclock.VirtualClock(), vclock.BudgetClock(3))
    d = case["dict"]
    rd = {int(k): {tuple(r) for r in v} for k, v in d["rules"].items()}
    root = d["root"]
    # prune == greatest fixed point
    want = graphs.gfp_prune(rd)
    got = copy.deepcopy(rd)
    ts.prune(got)
    got = {k: set(v) for k, v in got.items() if v}
    cx.count("c05.prune_compared")
    if got != want:
        cx.violation("C05:prune-not-gfp", f"prune gave {got}, greatest fixed point is {want}",
                     {"rules": d["rules"]})
    # iterative_prune == bottom-up derivability with the root pre-verified
    _, have = graphs.iter_derivable(rd, root)
    goti = ts.iterative_prune(copy.deepcopy(rd), root=root)
    goti = {k: set(v) for k, v in goti.items() if v}
    cx.count("c05.iterative_prune_compared")
    if goti != have:
        cx.violation("C05:iterative-prune-wrong", f"iterative_prune gave {goti}, reference {have}",
                     {"rules": d["rules"], "root": root})
    big = 0
    if root in want:
        pruned = {k: set(v) for k, v in want.items()}
        finders = {
            "random_proof_tree": lambda: ts.random_proof_tree(pruned, root),
            "smallish_random_proof_tree": lambda: ts.smallish_random_proof_tree(pruned, root, 1.0),
            "proof_tree_dfs": lambda: ts.proof_tree_dfs(pruned, root)[1],
        }
        for name, fn in finders.items():
            for _ in range(3):
                t = fn()
                _tree_ok(name, t, pruned, root)
                big += len(t) > 3
        for j, t in enumerate(ts.proof_tree_generator_dfs(pruned, root=root)):
            _tree_ok("proof_tree_generator_dfs", t, pruned, root)
            big += len(t) > 3
            if j >= 11:
                break
        # the breadth-first generator materialises the trees of all sub-problems
        # (itertools.product): it is only run on a thinned dictionary (one rule per label, two labels keep two)
        wide = set(sorted(pruned)[:: max(1, len(pruned) // 2)][:2])  # two labels keep two rules
        thin = graphs.gfp_prune({k: set(sorted(v)[: 2 if k in wide else 1]) for k, v in pruned.items()})
        if root in thin:
            for j, t in enumerate(ts.proof_tree_generator_bfs(thin, root=root)):
                _tree_ok("proof_tree_generator_bfs", t, thin, root)
                big += len(t) > 3
                if j >= 11:
                    break
        # smallest by binary search over the bounded generator (as RuleDBBase does)
        best = graphs.min_tree_size(pruned, root)
        if best is not None:
            lo, hi = 1, len(ts.random_proof_tree(pruned, root))
            node = None
            while lo < hi:
                mid = (lo + hi) // 2
                try:
                    node = next(ts.proof_tree_generator_dfs(pruned, root=root, maximum=mid))
                    _tree_ok("proof_tree_generator_dfs(maximum)", node, pruned, root)
                    if len(node) > mid:
                        cx.violation("C05:bounded-generator-exceeds-bound",
                                     f"maximum={mid} yielded a tree of {len(node)} nodes", {"rules": d["rules"]})
                    hi = min(mid, len(node))
                except StopIteration:
                    lo = mid + 1
            cx.count("c05.smallest_direct_compared")
            if hi != best:
                cx.violation("C05:smallest-not-minimal:direct",
                             f"binary search over the bounded generator ends at {hi}, exhaustive minimum {best}",
                             {"rules": d["rules"], "root": root})
    if root in have:
        pruned_i = {k: set(v) for k, v in have.items()}
        t = ts.iterative_proof_tree_finder(pruned_i, root)
        _tree_ok("iterative_proof_tree_finder", t, pruned_i, root, iterative=True)
        big += len(t) > 3
        if _first_rule_acyclic(pruned_i, root):
            t = ts.iterative_proof_tree_bfs(pruned_i, root)
            _tree_ok("iterative_proof_tree_bfs", t, pruned_i, root, iterative=True)
            big += len(t) > 3
        else:
            # iterative_proof_tree_bfs always takes the first rule of a label; when those
            # choices form a cycle that avoids the root it never returns (unused by the
            # library; "every tree a finder returns" says nothing about it) - not judged
            cx.count("c05.iterative_bfs_would_not_terminate_not_judged")
    return {"nontrivial": big >= 2, "fingerprint": fp(case["dict"])}


# --------------------------------------------------------------------------- table kind


class _Interrupted(BaseException):
    """Stands for Ctrl-C / a watchdog alarm inside a specification check."""


def run_table(case):
    from comb_spec_searcher import CombinatorialSpecificationSearcher
    from comb_spec_searcher.exception import SpecificationNotFound

    cx = base.ctx()
    m_ruledb.reset()
    m_search.reset()
    vrng.set_rng(vrng.ScriptedRNG(case["rng_seed"]))
    vclock.install(vclock.VirtualClock(), vclock.BudgetClock(2))
    tb = case["table"]
    pack = table.build_pack(tb, iterative=case["iterative"], sets=case["sets"])
    db = gen.build_db(case["db"])
    s = CombinatorialSpecificationSearcher(table.Lab(case["root"]), pack, ruledb=db)
    answers = set()

    every = int(case.get("poll_every", 1))
    seen_packets = [0]

    def poll(searcher, st):
        # has_specification is polled after every `every`-th packet: with gaps, several rules
        # (e.g. several edges of overlapping cycles) arrive between two cycle detections
        seen_packets[0] += 1
        if st is not None and seen_packets[0] % every:
            return
        if case.get("interrupt_polls") and seen_packets[0] % 3 == 1:
            # a specification check interrupted inside the pruning (Ctrl-C, a watchdog), then asked again
            from comb_spec_searcher.rule_db import base as dbmod

            saved = dbmod.prune, dbmod.iterative_prune

            def interrupted(*a, **k):
                raise _Interrupted()

            dbmod.prune = dbmod.iterative_prune = interrupted
            m_ruledb._DEPTH[0] += 1
            try:
                searcher.has_specification()
            except _Interrupted:
                cx.count("c05.polls_interrupted_inside_pruning")
            finally:
                m_ruledb._DEPTH[0] -= 1
                dbmod.prune, dbmod.iterative_prune = saved
        answers.add(bool(searcher.has_specification()))  # postcondition evaluated here

    m_search.attach(s, None, poll)
    poll(s, None)
    for _ in range(400):
        try:
            wp = next(s.classqueue)
        except StopIteration:
            break
        s._expand(s.classdb.get_class(wp.label), wp.label, wp.strategies, wp.inferral)
    answers.add(bool(s.has_specification()))  # final poll (postcondition)
    sh = m_ruledb.shadow_of(db)
    comp, rd, pruned, root = sh.expected_pruned(s.start_label, case["iterative"])
    root_in_bigger = any(c == root and l != s.start_label for l, c in comp.items())
    if s.has_specification():
        for smallest in ((False, True) if not case["iterative"] else (False,)):
            try:
                db._get_specification_node(0, smallest)  # postcondition: valid (+ minimal)
                cx.count("c05.nodes_requested")
            except SpecificationNotFound:
                cx.violation("C05:node-not-found", "has_specification() is True but no node was produced", None)
    cx.see("table_db", case["db"])
    return {"nontrivial": answers == {False, True} or root_in_bigger, "fingerprint": fp(case)}


def run_words(case):
    cx = base.ctx()
    m_ruledb.reset()
    m_search.reset()
    res = searchlib.run_search(case)
    st = res.state
    answers = {a for _, a in st.spec_checks}
    db = res.searcher.ruledb
    sh = m_ruledb.shadow_of(db)
    comp, _, _, root = sh.expected_pruned(res.searcher.start_label, case["pack"]["iterative"])
    root_in_bigger = any(c == root and l != res.searcher.start_label for l, c in comp.items())
    if root_in_bigger:
        cx.count("c05.word_searches_root_in_bigger_class")
    return {"nontrivial": answers == {False, True} or root_in_bigger, "fingerprint": fp(case)}


def run_dicts(case):
    nt = False
    for j, d in enumerate(case["dicts"]):
        r = run_dict({"id": f"{case['id']}/{j}", "kind": "dict", "dict": d, "rng_seed": case["rng_seed"] * 1000 + j})
        nt = nt or r["nontrivial"]
        base.ctx().count("c05.exhaustive_dictionaries")
    return {"nontrivial": nt, "fingerprint": fp(case["id"])}


def run_case(case):
    return {"dict": run_dict, "dicts": run_dicts, "table": run_table, "words": run_words}[case["kind"]](case)


def classify(v):
    m = v["mechanism"]
    return m
