"""C09 – every rule form counts its parent correctly from its children, with parameters.

For generated word classes (prefix 0-3, 0-3 statistics incl. duplicated and dead ones,
proper classes) every strategy of the universe is applied and every form the library
derives from the rule is built (reverse w.r.t. every child, equivalence form, its reverse,
equivalence paths forwards/backwards); each form's constructor.get_terms is then called
for every size <= N with providers bound to the *true* enumerations of the children
(recording providers, vdrive.rulelib) and the result is compared with the true
enumeration of the form's parent.  Rules harvested from real searches are added.
"""
from vdrive import rulelib, searchlib
from vdrive.core import fp
from vmon import base, m_ruledb
from vref import words as rw
from vuniv import gen, intuniv

PROPERTY = "C09"
LEVEL = "exploration"
RULE = (
    "case = one word class (<=3 letters, prefix 0-3, <=4 factors, 0-3 statistics, possibly proper) or "
    "one real search whose recorded rules are harvested; every strategy is applied, every derived form "
    "built, and each form evaluated for all sizes <= N against brute force - once per size through its constructor with fresh providers, once through the rule's own get_terms (level cache) with the counting interrupted at a random provider call and the same object asked again. non-trivial = a case with a "
    "derived (non-plain) form on a class with >= 1 statistic or a path form; distinct = class fingerprints"
)
LEVEL_TEXT = (
    "exploration: differential oracle (brute-force enumeration of parent and children) on single "
    "constructor.get_terms calls of every derived rule form of generated and harvested rules"
)
LEVEL_NOTE = "forms the library declines to build (documented refusals) are counted, not judged; forms with an empty parent are skipped"
TECHNIQUE = "runtime monitoring: recording sub-term providers bound to a brute-force reference"
ASSUMPTIONS = ["brute-force enumeration of the word classes is the ground truth"]
N = {"quick": 6, "thorough": 8}
FLOORS = {
    "quick": {"nontrivial": 300, "counters": {"rules.evaluations_compared": 45000, "rules.forms_built": 6000},
              "seen": {"rules.form": 6, "rules.constructor": 4}},
    "thorough": {"nontrivial": 6000, "counters": {"rules.evaluations_compared": 1500000, "rules.forms_built": 120000},
                 "seen": {"rules.form": 6, "rules.constructor": 4}},
}
CASE_TIMEOUT = {"quick": 60, "thorough": 180}
SIZES = {"quick": (700, 60), "thorough": (14000, 1200)}
JUDGE = "count"


def shard_setup(tier):
    searchlib.install_ambient()
    m_ruledb.install()
    m_ruledb.CONFIG["check_has_spec"] = False
    m_ruledb.CONFIG["check_tree"] = False


def gen_cases(tier, seed, tag="C09"):
    nc, ns = SIZES[tier]
    k = 0
    for i in range(nc):
        rng = intuniv.rng_for(seed, tag + "c", i)
        # (a quarter of the classes are pairs: products with two non-trivial, often equal factors)
        cls = gen.rand_class(rng, atoms=False, bytes_p=0, pairs=0.25)
        cls["proper"] = rng.random() < 0.25
        if rng.random() < 0.6:  # products need a removable front: favour non-empty prefixes
            cls["prefix"] = "".join(rng.choice(cls["alphabet"]) for _ in range(rng.randint(1, 3)))
        yield {"id": k, "kind": "class", "cls": cls, "seed": f"{seed}/{tag}/{i}", "N": N[tier]}
        k += 1
    i = 0
    produced = 0
    while produced < ns:
        rng = intuniv.rng_for(seed, tag + "s", i)
        i += 1
        case = gen.rand_search_case(rng)
        if rw.is_empty(case["cls"]):
            continue
        case["db"] = "base"
        case["kind"] = "search"
        case["id"] = k
        case["N"] = N[tier]
        case["seed"] = f"{seed}/{tag}/s{i}"
        k += 1
        produced += 1
        yield case


def judge_form(name, form, upto, judge):
    """Evaluate one form for all sizes; judge = 'count' (C09) or 'reads' (C10)."""
    cx = base.ctx()
    parent = rw.desc_of(form.comb_class)
    if rw.is_empty(parent):
        cx.count("rules.forms_with_empty_parent_skipped")
        return False
    cx.count("rules.forms_built")
    cx.see("rules.form", name.split("[")[0])
    cx.see("rules.constructor", type(form.constructor).__name__)
    shifts = rulelib.declared_shifts(form)
    for n in range(upto + 1):
        terms, log = rulelib.evaluate(form, n)
        wit = {"form": name, "class": repr(form.comb_class), "children": [repr(c) for c in form.children],
               "strategy": repr(form.strategy), "n": n}
        if judge == "count":
            want = rw.norm(rw.terms(parent, n))
            got = rw.norm(terms)
            cx.count("rules.evaluations_compared")
            if got != want:
                cx.violation(f"C09:wrong-terms:{name.split('[')[0]}:{type(form.constructor).__name__}",
                             f"{name} of {form.strategy!r} on {form.comb_class!r}: size {n} gives {got}, truth {want}",
                             wit)
        else:
            cx.count("reads.calls_checked")
            for who, m in log:
                cx.count("reads.provider_calls_checked")
                if who == "self":
                    if m >= n:
                        cx.violation("C10:own-terms-read-at-or-above-n",
                                     f"{name} of {form.strategy!r}: computing size {n} read its own terms at size {m}", wit)
                else:
                    if m > n - shifts[who]:
                        cx.violation(f"C10:read-beyond-declared-shift:{name.split('[')[0]}:{type(form.constructor).__name__}",
                                     f"{name} of {form.strategy!r} on {form.comb_class!r}: computing size {n} asked "
                                     f"child {who} for size {m} > {n} - {shifts[who]} (declared shifts {shifts})", wit)
            if any(s != 0 for s in shifts):
                cx.count("reads.calls_with_nonzero_shift")
    if judge == "count":
        # the same through the rule's own get_terms (level cache), once interrupted at a random
        # provider call and asked again: what the cache keeps must still be the truth
        rng = intuniv.rng_for("C09/cache", name, repr(form.comb_class), repr(form.strategy))
        at = rng.choice((None, 1, 2, rng.randint(1, 3 * (upto + 1))))
        try:
            got_all, interrupted = rulelib.through_the_cache(form, upto, at)
        except NotImplementedError:
            cx.count("rules.cache_route_not_implemented")
            return True
        cx.count("rules.cache_route_evaluations")
        if interrupted:
            cx.count("rules.cache_route_interrupted")
        for n, terms in enumerate(got_all):
            want, got = rw.norm(rw.terms(parent, n)), rw.norm(terms)
            if got != want:
                how = f"after a counting call interrupted at provider call #{at}" if interrupted else "uninterrupted"
                cx.violation(f"C09:wrong-terms-through-cache:{name.split('[')[0]}:{type(form.constructor).__name__}"
                             + (":after-interruption" if interrupted else ""),
                             f"{name} of {form.strategy!r} on {form.comb_class!r}, get_terms({n}) {how}: {got}, "
                             f"truth {want}", {"form": name, "n": n, "interrupt_at": at})
    return True


def run_class(case, judge):
    cx = base.ctx()
    rng = intuniv.rng_for(case["seed"], "run")
    c = gen.build_class(case["cls"])
    derived = 0
    for strat in rulelib.strategies_for(rng):
        rule = rulelib.apply(strat, c)
        if rule is None:
            continue
        for name, form, reason in rulelib.forms(rule):
            if form is None:
                cx.count("rules.forms_not_built:" + str(reason))
                continue
            if judge_form(name, form, case["N"], judge) and name != "plain":
                derived += 1
    paths = 0
    for name, form, reason in rulelib.chains(c, rng):
        if form is None:
            cx.count("rules.paths_not_built:" + str(reason))
            continue
        try:
            form.constructor
        except NotImplementedError:
            cx.count("rules.paths_not_built:constructor-NotImplementedError")
            continue
        if judge_form(name, form, case["N"], judge):
            paths += 1
    if judge == "reads":
        return {"nontrivial": cx.counters.get("reads.calls_with_nonzero_shift", 0) > 0 and derived >= 1,
                "fingerprint": fp(case["cls"])}
    return {"nontrivial": (derived >= 1 and bool(case["cls"]["stats"])) or paths >= 1,
            "fingerprint": fp(case["cls"])}


def run_search(case, judge):
    cx = base.ctx()
    m_ruledb.reset()
    res = searchlib.run_search(case)
    sh = m_ruledb.shadow_of(res.searcher.ruledb)
    seen = set()
    derived = 0
    for ev in sh.events[:60]:
        rule = ev["rule"]
        from comb_spec_searcher.strategies.rule import Rule

        if not isinstance(rule, Rule):
            continue
        key = (repr(rule.comb_class), repr(rule.strategy))
        if key in seen:
            continue
        seen.add(key)
        cx.count("rules.harvested_from_searches")
        for name, form, reason in rulelib.forms(rule):
            if form is None:
                cx.count("rules.forms_not_built:" + str(reason))
                continue
            if judge_form(name, form, min(case["N"], 6), judge) and name != "plain":
                derived += 1
    return {"nontrivial": derived >= 3 and bool(case["cls"]["stats"]), "fingerprint": fp(case)}


def run_case(case):
    return {"class": run_class, "search": run_search}[case["kind"]](case, JUDGE)
