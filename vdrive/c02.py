"""C02 – returned specifications are closed, one-rule-per-class, genuine and productive.

Deciding monitor: vmon.m_spec, a recording wrapper on CombinatorialSpecification.__init__
that examines every specification constructed during the run (searches under all rule
databases and schedules, expand_verified, JSON reloads).  Workloads: the word-universe
searches of C01 (closure / uniqueness / genuineness incl. pack membership / productivity)
and integer universes wrapped as strategies (closure / uniqueness / genuineness;
productivity only under the forest database, see DESIGN.md W3).
"""
import json

from vdrive import searchlib
from vdrive.core import fp
from vmon import base, clock as vclock, m_search, m_spec, rng as vrng
from vref import words as rw
from vuniv import gen, intuniv, table, words

PROPERTY = "C02"
LEVEL = "exploration"
RULE = (
    "case kinds: words = a real search as in C01 (class x pack x database x schedule), the returned "
    "specification plus its JSON reload and, when verified classes offer a pack, its expand_verified() "
    "result are examined; table = integer universe as strategies searched under each database. "
    "Every constructed specification is checked for closure, one rule per class in the rule stream, "
    "re-applied genuineness of every rule form (incl. pack membership) and productivity by R-lfp. "
    "non-trivial = a specification with >= 4 rules containing an equivalence/path/reverse form or a "
    "recursive reference; distinct = case fingerprints"
)
LEVEL_TEXT = (
    "exploration: structural oracle (set arithmetic + re-application of strategies + independent "
    "least fixed point) run on every specification object the real code constructs"
)
LEVEL_NOTE = (
    "emptiness of word classes is taken from the brute-force oracle; integer universes are judged on "
    "productivity only under the forest database (pruning databases never look at shifts)"
)
TECHNIQUE = "recording wrapper on the constructor + structural reference checks (re-application, R-lfp)"
ASSUMPTIONS = ["R-lfp (see C03)", "strategies are deterministic: re-applying one to its class gives the same children"]
FLOORS = {
    "quick": {"nontrivial": 250, "counters": {"spec.specs_examined": 900, "spec.rules_reapplied": 8000,
                                               "spec.productivity_checked": 700},
              "seen": {"spec.rule_form": 5}},
    "thorough": {"nontrivial": 6000, "counters": {"spec.specs_examined": 18000, "spec.rules_reapplied": 160000,
                                                   "spec.productivity_checked": 14000},
                 "seen": {"spec.rule_form": 6}},
}
# W5: the repository's own test suite runs once under these ambient monitors (thorough tier)
W5_MONITORS = ['spec']
CASE_TIMEOUT = {"quick": 60, "thorough": 120}
SIZES = {"quick": (520, 1500), "thorough": (10000, 30000)}


def shard_setup(tier):
    searchlib.install_ambient()
    m_spec.install()


def gen_cases(tier, seed):
    nw, nt = SIZES[tier]
    k = 0
    i = 0
    produced = 0
    while produced < nw:
        rng = intuniv.rng_for(seed, "C02w", i)
        i += 1
        case = gen.rand_search_case(rng)
        if rw.is_empty(case["cls"]):
            continue
        case["schedule"] = searchlib.rand_schedule(rng, iterative=case["pack"]["iterative"])
        case["kind"] = "words"
        case["id"] = k
        k += 1
        produced += 1
        yield case
    for i in range(nt):
        rng = intuniv.rng_for(seed, "C02t", i)
        yield {"id": k, "kind": "table", "table": table.random_table(rng, p_empty=0.15),
               "db": rng.choice(("forest", "forest", "forest", "forest_norev", "base", "forget")), "root": 0,
               "rng_seed": rng.randrange(10 ** 6), "smallest": rng.random() < 0.3}
        k += 1
    for i in range(nt // 2):
        # size-reducing tables with cycles of one-way single-child rows: here the pruning
        # databases owe a productive specification as well (see vuniv.table.random_table)
        rng = intuniv.rng_for(seed, "C02p", i)
        tb = table.random_table(rng, p_empty=0.1, positive=True)
        for _ in range(rng.randint(1, 2)):
            table.add_one_way_cycle(rng, tb)
        if rng.random() < 0.5:
            table.add_twin_unary_rows(rng, tb)
        prng = intuniv.rng_for(seed, "C02p/pred", i)
        if prng.random() < 0.4:
            table.add_cycle_with_common_predecessor(rng, tb)
        if prng.random() < 0.3:
            table.add_sibling_cycle_gadget(prng, tb)
        yield {"id": k, "kind": "table", "table": tb, "positive": True,
               "db": rng.choice(("base", "base", "forget", "forest")), "root": 0,
               "rng_seed": rng.randrange(10 ** 6), "smallest": rng.random() < 0.5,
               # has_specification polled after every single work packet: a cycle may be closed
               # (by a one-way or by a two-way row) after a poll has already looked at its edges
               "poll_each_packet": intuniv.rng_for(seed, "C02p/poll", i).random() < 0.6}
        k += 1


def _truth_empty(c):
    if isinstance(c, words.WC):
        return rw.is_empty(rw.desc_of(c))
    return bool(c.is_empty())


def run_words(case):
    from comb_spec_searcher import CombinatorialSpecification
    from comb_spec_searcher.exception import InvalidOperationError

    cx = base.ctx()
    pack = gen.build_pack(case["pack"])
    m_spec.set_context(packs=[pack, words.make_pack({"ver": "atom"})], judge_productivity=True,
                       truth_empty=_truth_empty)
    res = searchlib.run_search(case)
    cx.see("db", case["db"])
    if res.outcome != "spec":
        return {"skip": "no specification"}
    spec = res.spec
    prof = searchlib.spec_profile(spec)
    # the same monitor sees the JSON reload ...
    CombinatorialSpecification.from_dict(json.loads(json.dumps(spec.to_jsonable())))
    cx.count("c02.json_reloads_examined")
    # ... and the result of expanding verified classes
    if any(True for _ in spec.unexpanded_verified_classes()):
        spec.expand_verified()
        cx.count("c02.expand_verified_examined")
    forms = {k.split(":")[0] for k in prof["kinds"]}
    interesting = prof["recursive"] or forms & {"EquivalencePathRule", "EquivalencePathRule+reverse",
                                                "EquivalenceRule", "ReverseRule", "EquivalenceRule(reverse)"}
    return {"nontrivial": prof["rules"] >= 4 and bool(interesting), "fingerprint": fp(case)}


def run_table(case):
    from comb_spec_searcher import CombinatorialSpecificationSearcher
    from comb_spec_searcher.exception import SpecificationNotFound

    cx = base.ctx()
    vrng.set_rng(vrng.ScriptedRNG(case["rng_seed"]))
    vclock.install(vclock.VirtualClock(), vclock.BudgetClock(2))
    pack = table.build_pack(case["table"])
    forest = case["db"].startswith("forest")
    judge = forest or bool(case.get("positive"))
    if judge and not forest:
        cx.count("c02.pruning_database_judged_on_productivity")
    m_spec.set_context(packs=[pack], judge_productivity=judge, truth_empty=None)
    s = CombinatorialSpecificationSearcher(table.Lab(case["root"]), pack, ruledb=gen.build_db(case["db"]))
    cx.see("table_db", case["db"])
    if case.get("poll_each_packet"):
        clk, _ = vclock.install(vclock.VirtualClock(), vclock.BudgetClock(1))
        m_search.attach(s, vclock.Schedule(clk, "interrupt"))
        cx.count("c02.searches_polled_after_every_packet")
    try:
        spec = s.auto_search(smallest=case["smallest"])
    except SpecificationNotFound:
        return {"skip": "no specification"}
    prof = searchlib.spec_profile(spec)
    return {"nontrivial": prof["rules"] >= 4, "fingerprint": fp(case)}


def run_case(case):
    try:
        return {"words": run_words, "table": run_table}[case["kind"]](case)
    finally:
        m_spec.set_context()
