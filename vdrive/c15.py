"""C15 – the class database is a stable bijection between classes and dense labels.

Workload W4: operation histories on a real ClassDB over word classes (plain and with
to_bytes/from_bytes, i.e. the zlib path): label / class look-ups, membership tests for
known and unknown classes and for known, unknown and negative integers, emptiness
queries with and without label, truthful set_empty, iteration.  Deciding monitors: the
icontract invariant and postconditions of vmon.m_classdb (sequential model fed at the
client boundary); the driver adds the checks on raised exceptions (totality).
"""
from vdrive.core import fp
from vmon import base, m_classdb
from vuniv import blobs, gen, intuniv, words

PROPERTY = "C15"
LEVEL = "exploration"
RULE = (
    "case = one history of 10-200 operations (get_label by class/int, get_class by int/class, "
    "`in` for classes and for integers in {known, len, len+5, -1, -len-1}, is_empty with/without "
    "label, is_empty with the class's own emptiness check interrupted by a BaseException and asked again, truthful set_empty, add, iteration) on a real ClassDB over word classes, plain or "
    "compressed, a third of them with a coarse hash (unequal classes sharing hashes), or (15 %) over classes whose byte form is an arbitrary byte string - zlib streams of each other, truncated streams; every answer is compared with a list+dict model. non-trivial = >= 8 distinct "
    "classes stored, with repeated look-ups and unknown-key membership tests; distinct = histories"
)
LEVEL_TEXT = (
    "exploration: sequential reference model (list + dict) as icontract postconditions and a "
    "class invariant on the real ClassDB, over random operation histories incl. the zlib path"
)
LEVEL_NOTE = "classes come from the word universe; set_empty is only ever called with the true value, as the searcher does"
TECHNIQUE = "runtime contracts (icontract invariant + postconditions) against a sequential model"
ASSUMPTIONS = ["equality/hash of the word classes are correct (plain value objects)"]
FLOORS = {
    "quick": {"nontrivial": 300, "counters": {"classdb.get_label_checked": 30000,
                                               "classdb.contains_checked": 15000,
                                               "classdb.is_empty_checked": 8000,
                                               "classdb.invariant_evaluated": 50000,
                                               "c15.unknown_int_membership": 3000,
                                               "c15.histories_with_colliding_hashes": 250}},
    "thorough": {"nontrivial": 6000, "counters": {"classdb.get_label_checked": 600000,
                                                   "classdb.contains_checked": 300000,
                                                   "c15.unknown_int_membership": 60000}},
}
# W5: the repository's own test suite runs once under these ambient monitors (thorough tier)
W5_MONITORS = ['classdb']
CASE_TIMEOUT = {"quick": 30, "thorough": 60}
SIZES = {"quick": 1200, "thorough": 24000}


class _Interrupted(BaseException):
    """Stands for Ctrl-C / a watchdog alarm inside a class's own is_empty()."""


def shard_setup(tier):
    m_classdb.install()


def _pool(rng, compressed, coarse=False):
    """A pool of classes with many near-duplicates (equal classes built twice).  With
    `coarse` the classes hash by prefix length only, so unequal classes share hashes."""
    pool = []
    base_cls = gen.rand_class(rng, bytes_p=0)
    base_cls["bytes"] = compressed
    base_cls["hash"] = "coarse" if coarse else None
    for _ in range(rng.randint(4, 25)):
        d = dict(base_cls)
        r = rng.random()
        if r < 0.5:
            d["prefix"] = "".join(rng.choice(d["alphabet"]) for _ in range(rng.randint(0, 4)))
        elif r < 0.7:
            d["just_prefix"] = not d["just_prefix"]
        elif r < 0.85:
            d = gen.rand_class(rng, bytes_p=0)
            d["bytes"] = compressed
            d["hash"] = "coarse" if coarse else None
        pool.append(d)
    return pool


def gen_cases(tier, seed):
    for i in range(SIZES[tier]):
        rng = intuniv.rng_for(seed, "C15", i)
        compressed = rng.random() < 0.5
        coarse = intuniv.rng_for(seed, "C15/coarse", i).random() < 0.35
        pool = _pool(rng, compressed, coarse)
        mixed = compressed and not coarse and intuniv.rng_for(seed, "C15/mixed", i).random() < 0.5
        brng = intuniv.rng_for(seed, "C15/blob", i)
        blob = brng.random() < 0.15
        if blob:
            # classes whose byte form is an arbitrary byte string, zlib streams of each other included
            pool, compressed, coarse, mixed = blobs.rand_pool(brng), True, False, False
        for d in pool:
            d["mixed"] = mixed  # compressed classes and atoms that opt out of compression in one database
            if mixed and d.get("right"):
                d["right"] = None
        ops = []
        for _ in range(rng.randint(10, 200)):
            r = rng.random()
            j = rng.randrange(len(pool))
            if r < 0.30:
                ops.append(["label", j])
            elif r < 0.40:
                ops.append(["label_int", rng.choice(("known", "len", "neg"))])
            elif r < 0.50:
                ops.append(["class_int", rng.choice(("known", "known", "len", "big"))])
            elif r < 0.56:
                ops.append(["class_cls", j])
            elif r < 0.66:
                ops.append(["in_cls", j])
            elif r < 0.80:
                ops.append(["in_int", rng.choice(("known", "len", "len5", "neg1", "negbig", "zero"))])
            elif r < 0.86:
                ops.append(["empty", j, rng.random() < 0.5])
            elif r < 0.88:
                # the class's own emptiness check is interrupted (Ctrl-C, a watchdog), asked again later
                ops.append(["empty_interrupted", j, rng.random() < 0.5])
            elif r < 0.93:
                ops.append(["set_empty", j])
            elif r < 0.96:
                ops.append(["add", j])
            else:
                ops.append(["iter"])
        yield {"id": i, "compressed": compressed, "coarse": coarse, "mixed": mixed, "blob": blob, "pool": pool,
               "ops": ops}


def run_case(case):
    from comb_spec_searcher.class_db import ClassDB

    cx = base.ctx()
    m_classdb.reset()
    ctype = words.WCB if case["compressed"] else words.WC
    if case.get("coarse"):
        ctype = words.WCBH if case["compressed"] else words.WCH
        cx.count("c15.histories_with_colliding_hashes")
    if case.get("mixed"):
        ctype = words.WCM
        cx.count("c15.histories_with_mixed_compression")
    if case.get("blob"):
        ctype = blobs.Blob
        cx.count("c15.histories_over_arbitrary_byte_forms")
    db = ClassDB(ctype)
    model = m_classdb.model_of(db)
    rng = intuniv.rng_for("c15run", case["id"])
    unknown_probes = 0

    def build(j):
        d = case["pool"][j]
        if "blob" in d:
            return blobs.Blob(bytes.fromhex(d["blob"]))
        return words.WC.from_descriptor(d)  # a fresh, equal instance every time

    def pick_int(kind):
        n = len(model.classes)
        return {"known": rng.randrange(n) if n else 0, "len": n, "len5": n + 5, "big": n + 17,
                "neg1": -1, "neg": -1, "negbig": -n - 1, "zero": 0}[kind]

    for op in case["ops"]:
        kind = op[0]
        if kind == "label":
            db.get_label(build(op[1]))
        elif kind in ("label_int", "class_int"):
            # look-ups by integer: judged for known labels only (the postconditions do
            # that); what an unknown or negative integer does is outside the statement
            k = pick_int(op[1])
            n = len(model.classes)
            if 0 <= k < n:
                try:
                    db.get_label(k) if kind == "label_int" else db.get_class(k)
                except (KeyError, IndexError) as e:
                    cx.violation("C15:known-label-rejected",
                                 f"{kind}({k}) raised {type(e).__name__} with {n} classes", None)
            else:
                cx.count("c15.unknown_int_lookup_not_judged")
                m_classdb._DEPTH[0] += 1  # not judged: keep the postconditions out of it
                try:
                    db.get_label(k) if kind == "label_int" else db.get_class(k)
                except (KeyError, IndexError):
                    pass
                finally:
                    m_classdb._DEPTH[0] -= 1
        elif kind == "class_cls":
            db.get_class(build(op[1]))
        elif kind == "in_cls":
            _ = build(op[1]) in db
        elif kind == "in_int":
            k = pick_int(op[1])
            n = len(model.classes)
            if not 0 <= k < n:
                cx.count("c15.unknown_int_membership")
                unknown_probes += 1
            try:
                _ = k in db
            except Exception as e:  # noqa: BLE001 - membership must be total
                cx.violation("C15:membership-not-total",
                             f"({k} in db) raised {type(e).__name__} with {n} classes stored "
                             f"({'negative' if k < 0 else 'beyond the last label'})",
                             {"key": k, "stored": n})
        elif kind == "empty":
            c = build(op[1])
            if c in model.index:
                if op[2]:
                    db.is_empty(c, model.index[c])
                else:
                    db.is_empty(c)
            else:
                cx.count("c15.is_empty_unknown_class_not_judged")
        elif kind == "empty_interrupted":
            c = build(op[1])
            if c in model.index:
                cx.count("c15.emptiness_checks_interrupted")
                state = {"armed": True}
                own = c.is_empty

                def interrupted_once(_own=own, _state=state):
                    if _state["armed"]:
                        _state["armed"] = False
                        raise _Interrupted()
                    return _own()

                c.is_empty = interrupted_once
                try:
                    got = db.is_empty(c, model.index[c]) if op[2] else db.is_empty(c)
                except _Interrupted:
                    cx.count("c15.interruptions_propagated")
                else:
                    # nothing was interrupted only if the database already knew (and never asked)
                    # (an answer although the check was interrupted is not judged by itself - the
                    # statement is about what the database answers from then on, see below)
                    if not state["armed"]:
                        cx.count("c15.interruptions_answered_instead_of_propagated")
                del c.is_empty
                fresh = build(op[1])
                db.is_empty(fresh)  # judged by the postcondition: equals the class's own answer
        elif kind == "set_empty":
            c = build(op[1])
            if c in model.index:
                db.set_empty(model.index[c], c.is_empty())
        elif kind == "add":
            db.add(build(op[1]))
        elif kind == "iter":
            labs = list(db)
            if sorted(labs) != list(range(len(model.classes))):
                cx.violation("C15:iteration-wrong", f"iter(db) gave {labs} with {len(model.classes)} classes", None)
    # final sweep: every stored class is found again and maps back
    for lab, c in enumerate(model.classes):
        db.get_label(c)
        db.get_class(lab)
        db.is_empty(c)
    cx.see("compressed", case["compressed"])
    return {"nontrivial": len(model.classes) >= 8 and unknown_probes >= 1,
            "fingerprint": fp([case["pool"], case["ops"]])}
