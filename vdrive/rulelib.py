"""Shared by C09 / C10 (and C07's map checks): build every rule form the library derives
from a genuine rule of the word universe, and evaluate one `constructor.get_terms` call at
a time with *recording* providers bound to brute-force truth.

forms(rule) yields (name, form) for
    the rule itself
    to_reverse_rule(i) for every child i            (complement / quotient)
    to_equivalence_rule() when exactly one child is non-empty
    the reverse of that equivalence form
and chains(...) builds EquivalencePathRule objects from runs of unary equivalence links,
forwards and backwards.
"""
from vmon import base
from vref import words as rw
from vuniv import words


def strategies_for(opts_rng):
    """All W1 strategies with an option draw."""
    rng = opts_rng
    drop = rng.random() < 0.5
    return [
        words.Expand(drop=drop, order=rng.choice((0, 1, 2)), plus=False, dead=rng.random() < 0.5),
        words.Expand(drop=drop, order=rng.choice((0, 1, 2)), plus=True, dead=rng.random() < 0.5),
        words.RemoveFront(drop=drop, atom_last=rng.random() < 0.5, split=rng.random() < 0.5,
                          swap=rng.random() < 0.4, merge=rng.random() < 0.5),
        words.LetterSym(),
        words.MinimisePatterns(),
        words.DropDeadStat(),
        words.MergeStats(),
        words.RenameStats(),
        words.SplitPair(bar_first=rng.random() < 0.5, merge=rng.random() < 0.5),
        words.ExpandTwice(which=rng.choice((0, 1, 2)), drop=drop),
        words.TrackStat(),
    ]


def apply(strategy, comb_class):
    from comb_spec_searcher.exception import StrategyDoesNotApply

    try:
        return strategy(comb_class)
    except StrategyDoesNotApply:
        return None


def forms(rule):
    """(name, form) pairs derived from a plain rule; forms the library declines to build
    are reported as (name, None, reason)."""
    out = [("plain", rule, None)]
    nonempty = [c for c in rule.children if not rw.is_empty(rw.desc_of(c))]
    if rule.is_reversible():
        for i in range(len(rule.children)):
            try:
                out.append((f"reverse[{i}]", rule.to_reverse_rule(i), None))
            except (AssertionError, NotImplementedError) as e:
                out.append((f"reverse[{i}]", None, type(e).__name__))
    if len(nonempty) == 1 and len(rule.children) >= 1 and rule.strategy.can_be_equivalent():
        try:
            eq = rule.to_equivalence_rule() if len(rule.children) > 1 else rule
            if len(rule.children) > 1:
                out.append(("equivalence", eq, None))
            try:
                out.append(("reverse-of-equivalence", eq.to_reverse_rule(0), None))
            except (AssertionError, NotImplementedError) as e:
                out.append(("reverse-of-equivalence", None, type(e).__name__))
        except (AssertionError, NotImplementedError) as e:
            out.append(("equivalence", None, type(e).__name__))
    return out


def unary_links(comb_class, rng, depth=3):
    """A run of unary equivalence links starting at comb_class: list of forms whose
    children chain.  Each link is a unary rule or the equivalence form of a wider rule."""
    links = []
    cur = comb_class
    for _ in range(depth):
        options = []
        for s in (words.MinimisePatterns(), words.DropDeadStat(), words.MergeStats(), words.LetterSym(),
                  words.RenameStats(),
                  words.Expand(plus=True, drop=rng.random() < 0.5), words.Expand(drop=rng.random() < 0.5)):
            r = apply(s, cur)
            if r is None:
                continue
            nonempty = [c for c in r.children if not rw.is_empty(rw.desc_of(c))]
            if len(nonempty) != 1:
                continue
            if len(r.children) == 1:
                if r.children[0] == cur:
                    continue
                options.append(r)
            else:
                try:
                    options.append(r.to_equivalence_rule())
                except (AssertionError, NotImplementedError):
                    pass
        if not options:
            break
        link = rng.choice(options)
        links.append(link)
        cur = link.children[0]
    return links


def chains(comb_class, rng):
    """(name, path form or None, reason) built from a run of links, forwards and backwards
    and mixed (a backward link followed by forward ones)."""
    from comb_spec_searcher.strategies.rule import EquivalencePathRule

    out = []
    links = unary_links(comb_class, rng)
    if not links:
        return out

    def build(name, seq):
        try:
            if not all(l.is_equivalence() for l in seq):
                out.append((name, None, "link-not-equivalence"))
                return
            out.append((name, EquivalencePathRule(seq), None))
        except (AssertionError, NotImplementedError) as e:
            out.append((name, None, type(e).__name__))

    build(f"path[{len(links)}]", links)
    back = []
    ok = True
    for l in reversed(links):
        try:
            back.append(l.to_reverse_rule(0))
        except (AssertionError, NotImplementedError) as e:
            out.append(("path-backwards", None, type(e).__name__))
            ok = False
            break
    if ok:
        build(f"path-backwards[{len(back)}]", back)
        if len(links) >= 2:
            # from the middle class: back over link 1, which is not a chain -> instead:
            # start at links[0].children[0]: backwards over link0 is a different parent;
            # mixed path = [reverse(link0)] has to start at link0's child
            build("path-single-backward", back[-1:])
    return out


class Recorder:
    """Providers bound to truth that log every (who, size) they are asked for."""

    def __init__(self, form):
        self.form = form
        self.log = []
        self.children = [rw.desc_of(c) for c in form.children]
        self.parent = rw.desc_of(form.comb_class)

    def child(self, i):
        def provider(n):
            self.log.append((i, n))
            if n < 0:
                return rw.terms(self.children[i], 0).__class__()
            return rw.terms(self.children[i], n)

        return provider

    def own(self, n):
        self.log.append(("self", n))
        if n < 0:
            return rw.terms(self.parent, 0).__class__()
        return rw.terms(self.parent, n)


def evaluate(form, n):
    """One constructor.get_terms call for size n with fresh recording providers.
    Returns (terms, log)."""
    rec = Recorder(form)
    subterms = tuple(rec.child(i) for i in range(len(form.children)))
    terms = form.constructor.get_terms(rec.own, subterms, n)
    return terms, rec.log


class Interrupted(BaseException):
    """Raised by a provider to interrupt a counting call (stands for Ctrl-C / a timeout)."""


def through_the_cache(form, upto, interrupt_at=None):
    """The rule's own get_terms (its level cache) with providers bound to truth, sizes 0..upto
    in order.  With `interrupt_at` = k the k-th provider call raises Interrupted; the same rule
    object is then asked again for every size.  Returns (list of terms or None, interrupted?)."""
    rec = Recorder(form)
    state = {"calls": 0, "at": interrupt_at}

    def wrap(fn):
        def provider(n):
            state["calls"] += 1
            if state["at"] is not None and state["calls"] == state["at"]:
                state["at"] = None
                raise Interrupted()
            return fn(n)

        return provider

    saved = getattr(form, "subterms", None)
    form.subterms = tuple(wrap(rec.child(i)) for i in range(len(form.children)))
    interrupted = False
    try:
        try:
            for n in range(upto + 1):
                form.get_terms(n)
        except Interrupted:
            interrupted = True
        return [form.get_terms(n) for n in range(upto + 1)], interrupted
    finally:
        form.subterms = saved


def declared_shifts(form):
    """Shift per child as the form declares it (EquivalenceRule: read at child_idx)."""
    from comb_spec_searcher.strategies.rule import EquivalenceRule

    if isinstance(form, EquivalenceRule):
        return (tuple(form.original_rule.shifts())[form.child_idx],)
    return tuple(form.shifts())
