"""C01 – a specification returned by the searcher enumerates the root class correctly.

Real searches over the word universe (W1) under every rule-database flavour, pack
option and schedule (virtual-clock slicing, interruption + resumption, level-wise
expansion, seeded proof-tree choices, smallest).  Oracle: brute-force enumeration of the
start class *descriptor* (R-words) against spec.get_terms / count_objects_of_size for all
sizes <= N and all parameter tuples.
"""
from vdrive import searchlib
from vdrive.core import fp
from vmon import base
from vref import words as rw
from vuniv import gen, intuniv

PROPERTY = "C01"
LEVEL = "exploration"
RULE = (
    "case = (start class: words over <=3 letters with prefix, <=4 avoided factors, 0-3 letter-count "
    "statistics; pack option vector incl. symmetries, inferral chains, factories, iterative, "
    "prefix-verification, one-way unions; rule database base/forget/forest/forest-without-reverse; "
    "expand_verified flag; schedule: drain / sliced by virtual clock / interrupted+resumed / "
    "level-wise, smallest, perc, proof-tree RNG seed).  The real search is run and the returned "
    "specification's terms are compared with brute force for every size <= N and parameter tuple. "
    "non-trivial = a specification with >= 4 rules and a recursive reference was returned; "
    "distinct = distinct (class, pack, db, schedule) fingerprints"
)
LEVEL_TEXT = (
    "exploration: every specification handed back by real searches over generated classes, "
    "packs, databases and schedules is judged by an independent brute-force enumerator"
)
LEVEL_NOTE = (
    "reach is the word universe (regular languages with letter-count statistics) up to size N=7/9; "
    "the strategies of the universe are themselves re-validated against brute force by C09"
)
TECHNIQUE = "runtime monitoring: differential oracle (brute-force enumeration) on returned specifications"
ASSUMPTIONS = [
    "the word-universe strategies are honest combinatorial rules (re-checked by C09 on every run)",
    "SpecificationNotFound is a legitimate outcome for iterative packs and for the forest database "
    "without reverse rules when symmetries are on; it is counted, not judged",
]
N = {"quick": 7, "thorough": 9}
FLOORS = {
    "quick": {"nontrivial": 250, "counters": {"enum.sizes_compared": 3000, "c01.specs_judged": 350},
              "seen": {"db": 4, "schedule_mode": 4}},
    "thorough": {"nontrivial": 5000, "counters": {"enum.sizes_compared": 80000, "c01.specs_judged": 7000},
                 "seen": {"db": 4, "schedule_mode": 4}},
}
CASE_TIMEOUT = {"quick": 60, "thorough": 120}
SIZES = {"quick": 640, "thorough": 12000}


def shard_setup(tier):
    searchlib.install_ambient()


def gen_cases(tier, seed):
    i = 0
    produced = 0
    while produced < SIZES[tier]:
        rng = intuniv.rng_for(seed, "C01", i)
        i += 1
        case = gen.rand_search_case(rng)
        if rw.is_empty(case["cls"]):
            continue
        trng = intuniv.rng_for(seed, "C01/track", i)
        if trng.random() < 0.06 and not case["cls"].get("right") and not case["cls"].get("flags"):
            # a union child that also tracks a statistic its parent does not have: several terms
            # of the child collapse onto one term of the parent
            case["pack"]["inferral"] = ["track"] + [x for x in case["pack"]["inferral"] if x != "rename"]
            case["cls"]["stats"] = case["cls"]["stats"][:1]
            case["pack"]["iterative"] = False
            if case["pack"]["ver"] in ("libatom", "subatom"):
                case["pack"]["ver"] = "stat"  # the library's atom strategy refuses classes with statistics
        case["schedule"] = searchlib.rand_schedule(rng, iterative=case["pack"]["iterative"])
        case["N"] = N[tier]
        case["id"] = produced
        produced += 1
        yield case


def run_case(case):
    cx = base.ctx()
    res = searchlib.run_search(case)
    cx.see("db", case["db"])
    cx.see("outcome", res.outcome)
    if res.outcome != "spec":
        cx.count("c01.no_specification")
        legit = case["pack"]["iterative"] or (case["db"] == "forest_norev" and case["pack"]["sym"])
        if not legit:
            cx.count("c01.unexpected_not_found")
            cx.note(f"SpecificationNotFound for a recursive pack: {case['cls']} {case['pack']} {case['db']}")
        return {"skip": "no specification: " + ("legit" if legit else "unexpected")}
    spec = res.spec
    prof = searchlib.spec_profile(spec)
    searchlib.check_enumeration(spec, case["cls"], case.get("N", 7))
    cx.count("c01.specs_judged")
    if intuniv.rng_for("c01/inject", case["id"]).random() < 0.3:
        searchlib.interrupted_counting(spec, case["cls"], min(case.get("N", 7), 6),
                                       intuniv.rng_for("c01/inject-k", case["id"]))
    for k in prof["kinds"]:
        cx.see("rule_kind", k)
    if res.interrupted_at is not None:
        cx.count("c01.specs_after_interruption")
    if case["schedule"].get("smallest"):
        cx.count("c01.specs_smallest")
    if case["pack"]["iterative"]:
        cx.count("c01.specs_iterative")
    if case.get("expand_verified"):
        cx.count("c01.specs_expand_verified_flag")
    return {"nontrivial": prof["rules"] >= 4 and prof["recursive"], "fingerprint": fp(case)}
