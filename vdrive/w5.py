"""W5 helper: run the repository's own tests under the named ambient monitors and merge
what the monitors observed into the current case context."""
import json
import os
import subprocess
import sys
import tempfile

from vmon import base


def run_repo_tests(monitors, timeout=900):
    cx = base.ctx()
    repo = os.environ.get("VERIF_REPO", "/repo")
    home = os.environ.get("VERIF_HOME", os.path.dirname(os.path.dirname(os.path.abspath(__file__))))
    fd, out = tempfile.mkstemp(prefix="verif-w5-", suffix=".json")
    os.close(fd)
    env = dict(os.environ, PYTHONPATH=f"{repo}:{home}", VERIF_W5_MONITORS=",".join(monitors), VERIF_W5_OUT=out,
               PYTHONDONTWRITEBYTECODE="1")
    try:
        p = subprocess.run([sys.executable, "-m", "pytest", "-q", "-p", "no:cacheprovider", "-p", "vmon.pytest_plugin",
                            "--timeout=600", "-x"], cwd=repo, env=env, capture_output=True, text=True, timeout=timeout)
        with open(out) as f:
            res = json.load(f)
    except (subprocess.TimeoutExpired, FileNotFoundError, json.JSONDecodeError) as e:
        return {"inconclusive": f"repository tests under monitors did not complete: {type(e).__name__}"}
    finally:
        try:
            os.unlink(out)
        except OSError:
            pass
    for k, v in res["counters"].items():
        cx.count("w5." + k, v)
    cx.count("w5.repo_test_sessions")
    for v in res["violations"]:
        cx.violation(v["mechanism"], "[repository test suite under monitors] " + v["message"], v.get("witness"), raise_=False)
    if res["exitstatus"] != 0 and not res["violations"]:
        cx.note("repository tests exited with %s under monitors: %s" % (res["exitstatus"], p.stdout[-300:]))
        return {"inconclusive": "repository tests fail under monitors without a monitor firing: " + p.stdout[-200:]}
    return {"nontrivial": True, "fingerprint": "w5:" + ",".join(monitors)}
