"""C19 – expanding verified classes preserves the enumeration and finishes the job.

Real word-universe searches with the prefix-verification strategy (1-5 strategy-verified
classes: at the root, in the interior, inside equivalence paths when inferral strategies
and symmetries are on), under all rule databases; then spec.expand_verified().
Monitors: icontract snapshot + postcondition on CombinatorialSpecification.expand_verified
(same root, same terms as brute force to N, nothing left to expand, no rule object shared
with the original, original unchanged) and the C02 monitor (vmon.m_spec) on every
specification constructed on the way; a recording wrapper on expand_comb_class counts the
retries with reverse rules.
"""
from vdrive import searchlib
from vdrive.core import fp
from vmon import base, clock as vclock, m_spec, rng as vrng
from vref import words as rw
from vuniv import gen, intuniv, table, words

base.add_deps_path()
import icontract  # noqa: E402

PROPERTY = "C19"
LEVEL = "exploration"
RULE = (
    "case = one real search with prefix verification (class x pack x database), followed by "
    "expand_verified() on the returned specification; judged: it returns, same root, terms equal brute "
    "force to N, C02 well-formedness of every specification built on the way, no verified class with a "
    "pack left (each verification rule is asked itself; a fifth of the packs have a strategy that offers a pack "
    "for some of its classes only), no rule object shared with the original, original's rules and terms unchanged. "
    "The prefix-verification packs nest (the pack offered for a verified class verifies again, up to two "
    "further levels). case kind table = an integer universe as strategies in which 1-3 verified classes "
    "can be expanded only through a reverse rule (forward attempt ends in SpecificationNotFound, then the "
    "retry), half of them with an original specification that already contains a reverse rule; judged "
    "there: returns, nothing left to expand, C02 structure, no shared rule objects. "
    "non-trivial = >= 2 verified classes expanded or a verified class inside an equivalence path / at "
    "the root; table: at least one retry with reverse rules; distinct = case fingerprints"
)
LEVEL_TEXT = "exploration: snapshot/postcondition contract on the real expand_verified plus the structural monitor on every intermediate specification"
LEVEL_NOTE = "verified classes are those of the word universe's prefix-verification strategy (packs nest up to two levels before the atom-verified word pack) and of integer universes built so that only a reverse rule reaches them (no counting semantics there: structure only)"
TECHNIQUE = "runtime contract (icontract snapshot + postcondition) with brute-force enumeration and identity comparison"
ASSUMPTIONS = ["R-words; the C02 monitor's assumptions"]
N = {"quick": 6, "thorough": 8}
FLOORS = {
    "quick": {"nontrivial": 200, "counters": {"expand.calls_checked": 250, "expand.classes_expanded": 300,
                                               "spec.specs_examined": 600,
                                               "expand.verified_behind_equivalence_path": 15,
                                               "expand.calls_with_nested_verification": 80,
                                               "expand.retries_with_reverse": 250,
                                               "expand.calls_with_two_retries": 70,
                                               "expand.originals_containing_a_reverse_rule": 70}},
    "thorough": {"nontrivial": 2000, "counters": {"expand.calls_checked": 3600, "expand.classes_expanded": 7000,
                                                   "expand.retries_with_reverse": 4000,
                                                   "expand.calls_with_nested_verification": 1200,
                                                   "expand.originals_containing_a_reverse_rule": 1000}},
}
CASE_TIMEOUT = {"quick": 90, "thorough": 180}
SIZES = {"quick": 500, "thorough": 8000}
TABLES = {"quick": 300, "thorough": 5000}
_STATE = {"N": 6, "installed": False}


def all_rule_objects(spec):
    from comb_spec_searcher.strategies.rule import EquivalencePathRule

    out = []
    for r in spec.rules_dict.values():
        out.append(r)
        if isinstance(r, EquivalencePathRule):
            out.extend(r.rules)
    return out


def original_digest(self):
    n_max = _STATE["N"]
    counting = isinstance(self.root, words.WC)  # integer universes have no counting semantics
    return {
        "rule_ids": {c: id(r) for c, r in self.rules_dict.items()},
        "terms": [rw.norm(self.get_terms(n)) for n in range(n_max + 1)] if counting else None,
        "objs": [id(r) for r in all_rule_objects(self)],
    }


def verified_with_pack(spec):
    """The verified classes of `spec` that offer a pack, asked rule by rule (not through the
    library's own scan, which is part of what is judged)."""
    from comb_spec_searcher.exception import InvalidOperationError
    from comb_spec_searcher.strategies.rule import VerificationRule

    out = []
    for c, rule in spec.rules_dict.items():
        if isinstance(rule, VerificationRule):
            try:
                rule.pack()
            except InvalidOperationError:
                base.ctx().count("expand.verified_without_pack_seen")
                continue
            out.append(c)
    return out


def expansion_ok(self, result, OLD):
    cx = base.ctx()
    cx.count("expand.calls_checked")
    n_max = _STATE["N"]
    if result.root != self.root:
        cx.violation("C19:root-changed", f"{self.root!r} -> {result.root!r}", None, raise_=False)
        return False
    if isinstance(self.root, words.WC):
        desc = rw.desc_of(self.root)
        for n in range(n_max + 1):
            want = rw.norm(rw.terms(desc, n))
            got = rw.norm(result.get_terms(n))
            cx.count("expand.sizes_compared")
            if got != want:
                cx.violation("C19:expanded-specification-wrong-count",
                             f"size {n}: expanded specification gives {got}, truth {want}", {"n": n}, raise_=False)
                return False
    left = verified_with_pack(result)
    if left:
        cx.violation("C19:verified-class-left", f"{len(left)} verified classes with a pack remain, e.g. {left[0]!r}",
                     None, raise_=False)
        return False
    if result is not self:
        shared = set(OLD.digest["objs"]) & {id(r) for r in all_rule_objects(result)}
        if shared:
            cx.violation("C19:rule-object-shared", f"{len(shared)} rule objects are shared with the original",
                         None, raise_=False)
            return False
    # the original is left unchanged and usable
    now_ids = {c: id(r) for c, r in self.rules_dict.items()}
    old_ids = OLD.digest["rule_ids"]
    if any(now_ids.get(c) != i for c, i in old_ids.items()):
        cx.violation("C19:original-rules-changed", "a rule of the original specification was replaced", None, raise_=False)
        return False
    for n in range(n_max + 1 if OLD.digest["terms"] is not None else 0):
        if rw.norm(self.get_terms(n)) != OLD.digest["terms"][n]:
            cx.violation("C19:original-terms-changed", f"original's terms at size {n} changed", None, raise_=False)
            return False
    return True


def _err(self):
    return base.Violation("C19:contract", "expand_verified postcondition")


def shard_setup(tier):
    searchlib.install_ambient()
    m_spec.install()
    if _STATE["installed"]:
        return
    from comb_spec_searcher import specification

    S = specification.CombinatorialSpecification
    orig = S.expand_verified
    orig_ecc = S.expand_comb_class

    def body(self):
        return orig(self)

    body.__name__ = "expand_verified"
    S.expand_verified = icontract.snapshot(original_digest, name="digest")(
        icontract.ensure(expansion_ok, error=_err)(body))

    def expand_comb_class(self, comb_class, pack, reverse, continue_expanding_verified, max_expansion_time=None):
        cx = base.ctx()
        cx.count("expand.classes_expanded")
        if reverse:
            cx.count("expand.retries_with_reverse")
        return orig_ecc(self, comb_class, pack, reverse, continue_expanding_verified, max_expansion_time)

    S.expand_comb_class = expand_comb_class
    _STATE["installed"] = True


def gen_cases(tier, seed):
    i = 0
    produced = 0
    while produced < SIZES[tier]:
        rng = intuniv.rng_for(seed, "C19", i)
        i += 1
        case = gen.rand_search_case(rng, max_alpha=2 if rng.random() < 0.85 else 3, allow_iterative=False)
        if rw.is_empty(case["cls"]):
            continue
        case["pack"]["ver"] = rng.choice(("prefix1", "prefix2", "prefix1"))
        # nested verification: the pack offered for a verified class verifies again
        case["pack"]["nest"] = intuniv.rng_for(seed, "C19/nest", i).choice((0, 0, 1, 1, 2))
        # one strategy object verifying some classes with and some without a pack
        case["pack"]["nopack"] = intuniv.rng_for(seed, "C19/nopack", i).choice((0, 0, 0, 1, 2))
        if rng.random() < 0.5:
            case["pack"]["sym"] = True
            case["pack"]["inferral"] = rng.choice((["minimise"], ["rename", "minimise"], ["merge"], ["deadstat", "rename"]))
        if rng.random() < 0.3:
            case["cls"]["prefix"] = "".join(rng.choice(case["cls"]["alphabet"]) for _ in range(rng.randint(1, 2)))
            if rw.is_empty(case["cls"]):
                continue
        case["schedule"] = {"mode": "drain", "rng_seed": rng.randrange(10 ** 6), "tree_k": 1, "perc": 1,
                            "smallest": False}
        case.update(id=produced, N=N[tier])
        produced += 1
        yield case
    yield from gen_table_cases(tier, seed)


def gen_table_cases(tier, seed):
    for k in range(TABLES[tier]):
        rng = intuniv.rng_for(seed, "C19/table", k)
        tb = table.complement_universe(rng)
        yield {"id": f"t{k}", "kind": "table", "table": tb,
               "db": rng.choice(("base", "forget", "forest", "forest")) if not tb["via_reverse"] else "forest",
               "rng_seed": rng.randrange(10 ** 6), "N": N[tier]}


def run_table(case):
    """Integer universe in which a verified class can only be expanded through a reverse
    rule (SpecificationNotFound on the forward attempt, then the retry)."""
    from comb_spec_searcher import CombinatorialSpecificationSearcher
    from comb_spec_searcher.exception import SpecificationNotFound
    from comb_spec_searcher.strategies.rule import ReverseRule

    cx = base.ctx()
    tb = case["table"]
    packs = table.all_packs(tb)
    m_spec.set_context(packs=packs, judge_productivity=True, truth_empty=None)
    try:
        vrng.set_rng(vrng.ScriptedRNG(case["rng_seed"]))
        vclock.install(vclock.VirtualClock(), vclock.BudgetClock(2))
        s = CombinatorialSpecificationSearcher(table.Lab(0), packs[0], ruledb=gen.build_db(case["db"]))
        try:
            spec = s.auto_search()
        except SpecificationNotFound:
            cx.violation("C19:table-universe-without-specification",
                         "the complement universe is built to have a specification", None)
        verified = list(spec.unexpanded_verified_classes())
        if any(isinstance(r, ReverseRule) for r in all_rule_objects(spec)):
            cx.count("expand.originals_containing_a_reverse_rule")
        before = cx.counters.get("expand.retries_with_reverse", 0)
        new = spec.expand_verified()  # snapshot + postcondition; m_spec on every specification built
        retries = cx.counters.get("expand.retries_with_reverse", 0) - before
        if retries:
            cx.count("expand.calls_with_retry")
        if retries >= 2:
            cx.count("expand.calls_with_two_retries")
        n_rev = sum(isinstance(r, ReverseRule) for r in all_rule_objects(new))
        if retries and not n_rev:
            cx.violation("C19:retry-without-reverse-rule",
                         "the retry with reverse rules returned a specification without any reverse rule", None)
        cx.see("db", case["db"])
        return {"nontrivial": retries >= 1 and len(verified) >= 1, "fingerprint": fp(case)}
    finally:
        m_spec.set_context()


def _truth_empty(c):
    if isinstance(c, words.WC):
        return rw.is_empty(rw.desc_of(c))
    return bool(c.is_empty())


def run_case(case):
    from comb_spec_searcher.strategies.rule import EquivalencePathRule, VerificationRule

    if case.get("kind") == "table":
        return run_table(case)

    cx = base.ctx()
    _STATE["N"] = case["N"]
    pack = gen.build_pack(case["pack"])
    m_spec.set_context(packs=[pack] + words.offered_packs(case["pack"]), judge_productivity=True,
                       truth_empty=_truth_empty)
    try:
        res = searchlib.run_search(case)
        if res.outcome != "spec":
            return {"skip": "no specification"}
        spec = res.spec
        verified = verified_with_pack(spec)
        if not verified:
            return {"skip": "no strategy-verified class in the specification"}
        at_root = spec.root in verified
        in_path = any(isinstance(r, EquivalencePathRule) and r.children[0] in verified
                      for r in spec.rules_dict.values())
        before = cx.counters.get("expand.classes_expanded", 0)
        new = spec.expand_verified()  # snapshot + postcondition; m_spec on every spec built
        expanded = cx.counters.get("expand.classes_expanded", 0) - before
        cx.see("db", case["db"])
        if expanded > len(verified):
            # classes verified by the pack offered for a verified class were expanded too
            cx.count("expand.nested_verified_classes_expanded", expanded - len(verified))
            cx.count("expand.calls_with_nested_verification")
        if at_root:
            cx.count("expand.verified_root")
        if in_path:
            cx.count("expand.verified_behind_equivalence_path")
        # the expanded specification is usable on its own
        searchlib.check_enumeration(new, case["cls"], min(case["N"], 5), mech="C19:expanded-specification-wrong-count")
        return {"nontrivial": expanded >= 2 or at_root or in_path, "fingerprint": fp(case)}
    finally:
        m_spec.set_context()
