"""C18 – JSON round trips preserve specifications, rules, packs, strategies, bijections.

For every specification produced by a real search (all rule forms occur: plain,
verification, equivalence, path, reverse, reverse-of-equivalence; lazily added empty rules
are the common case) the driver round-trips  x -> to_jsonable -> json text -> from_dict
for the specification, each of its rules (path constituents included), the pack, every
strategy of the pack and a bijection built on the specification, and compares

  equality      a == b and b == a  (rule equality is asymmetric between Rule and subclasses)
  behaviour     terms and objects to size N, equations as sets, bijection maps pointwise
and checks that equality of strategies does not depend on how the instance was created
(Cls(**opts) vs Cls[ClassType, ObjType](**opts)).
"""
import json

from vdrive import searchlib
from vdrive.core import fp
from vmon import base
from vref import words as rw
from vuniv import gen, intuniv, words

PROPERTY = "C18"
LEVEL = "exploration"
RULE = (
    "case = one real search; the returned specification, all its rules and their constituents, the "
    "pack, every strategy of the pack (created plainly and through a subscripted generic alias) and a "
    "bijection built on the specification are serialised to JSON text and loaded back (kind bij: a "
    "bijection between two *different* specifications of a related pair, incl. classes of one side "
    "matched with several classes of the other; matched pairs, child orders, index data and both maps "
    "pointwise compared before/after); equality both "
    "ways plus behavioural comparison (terms/objects to N, equations, bijection maps). non-trivial = a "
    "specification with >= 4 rules incl. a lazily added empty rule or a non-plain rule form; "
    "distinct = case fingerprints"
)
LEVEL_TEXT = "exploration: round-trip oracle (equality both ways + behavioural comparison) on every serialisable object real searches produce"
LEVEL_NOTE = "word-universe classes and strategies implement to_jsonable/from_dict themselves; they are plain value objects"
TECHNIQUE = "runtime monitoring: round-trip differential check at the serialisation boundary"
ASSUMPTIONS = ["json.dumps/json.loads are faithful for the produced dictionaries"]
N = {"quick": 6, "thorough": 8}
FLOORS = {
    "quick": {"nontrivial": 250, "counters": {"json.specs_round_tripped": 350, "json.rules_round_tripped": 4000,
                                               "json.strategies_round_tripped": 2500,
                                               "json.bijections_round_tripped": 150,
                                               "json.pair_bijections_round_tripped": 80,
                                               "json.bijections_with_a_class_matched_twice": 4,
                                               "json.instantiation_pairs_compared": 300,
                                               "json.specs_with_empty_rule": 100},
              "seen": {"json.rule_form": 5}},
    "thorough": {"nontrivial": 5000, "counters": {"json.specs_round_tripped": 8000, "json.rules_round_tripped": 80000,
                                                   "json.bijections_round_tripped": 3000},
                 "seen": {"json.rule_form": 5}},
}
CASE_TIMEOUT = {"quick": 60, "thorough": 120}
SIZES = {"quick": 520, "thorough": 10000}
FORM_CASES = {"quick": 300, "thorough": 6000}
BIJ_CASES = {"quick": 200, "thorough": 4000}


def shard_setup(tier):
    searchlib.install_ambient()


def gen_cases(tier, seed):
    for j in range(FORM_CASES[tier]):
        rng = intuniv.rng_for(seed, "C18f", j)
        cls = gen.rand_class(rng, bytes_p=0)
        cls["proper"] = rng.random() < 0.25
        if rng.random() < 0.6:
            cls["prefix"] = "".join(rng.choice(cls["alphabet"]) for _ in range(rng.randint(1, 3)))
        yield {"id": f"f{j}", "kind": "forms", "cls": cls, "seed": f"{seed}/C18f/{j}"}
    i = 0
    produced = 0
    while produced < SIZES[tier]:
        rng = intuniv.rng_for(seed, "C18", i)
        i += 1
        case = gen.rand_search_case(rng)
        if rw.is_empty(case["cls"]):
            continue
        erng = intuniv.rng_for(seed, "C18/empty", i)
        if erng.random() < 0.04 and case["cls"]["patterns"] and case["cls"].get("right") is None \
                and not case["cls"].get("flags") and not case["cls"]["just_prefix"]:
            # an empty start class: the forest database answers with the specification "the root
            # is empty" (one rule), the others refuse
            case["cls"]["prefix"] = erng.choice(case["cls"]["patterns"])
            case["db"] = "forest"
            case["empty_root"] = True
        elif erng.random() < 0.25:
            # the specification is asked for the rule of an empty class that is nobody's child
            # (it adds such rules on demand) before it is dumped
            case["ask_empty"] = True
        if erng.random() < 0.08 and not case["cls"].get("bytes"):
            # the same universe over a class that shares its name with another module's class
            case["cls"]["twin"] = True
        if intuniv.rng_for(seed, "C18/searched", i).random() < 0.12:
            # a verification strategy without an enumeration of its own: using the specification
            # makes it search with its pack (anything it remembers then takes part in equality)
            case["pack"]["ver"] = "searched2"
            case["pack"]["nest"] = 0
        case["schedule"] = {"mode": "drain", "rng_seed": rng.randrange(10 ** 6), "tree_k": 1, "perc": 1,
                            "smallest": False}
        case.update(id=produced, N=N[tier])
        produced += 1
        yield case
    # bijections between *different* specifications (the pairs of C12): classes of one side
    # matched with several classes of the other, non-identity child orders, index data
    from vdrive import c12

    k = 0
    for pc in c12.gen_cases(tier, f"{seed}/C18bij"):
        if pc["kind"] in ("self", "reload", "unrelated", "near"):
            continue
        pc = dict(pc, kind_pair=pc["kind"], id=f"b{k}", N=N[tier])
        pc["kind"], pc["pair_kind"] = "bij", pc["kind"]
        yield pc
        k += 1
        if k >= BIJ_CASES[tier]:
            break


def run_bij(case):
    """A bijection between two different specifications, serialised and loaded back."""
    from comb_spec_searcher.isomorphism import Bijection
    from vdrive import c12

    cx = base.ctx()
    pair = c12.build_pair(dict(case, kind=case["pair_kind"]))
    if isinstance(pair, str):
        return {"skip": pair}
    s1, s2 = pair
    for n in range(case["N"] + 1):
        s1.get_terms(n)
        s2.get_terms(n)
    bij = Bijection.construct(s1, s2)
    if bij is None:
        return {"skip": "not isomorphic"}
    data = rt(bij)
    bij2 = Bijection.from_dict(data)
    cx.count("json.bijections_round_tripped")
    cx.count("json.pair_bijections_round_tripped")
    order = bij._get_order  # pylint: disable=protected-access
    partners = {}
    for c1, c2 in order:
        partners.setdefault(c1, set()).add(c2)
    multi = any(len(v) >= 2 for v in partners.values())
    if multi:
        cx.count("json.bijections_with_a_class_matched_twice")
    for name in ("_get_order", "_index_data"):
        a, b = getattr(bij, name), getattr(bij2, name)
        if set(a) != set(b):
            cx.violation("C18:bijection-round-trip-loses-pairs",
                         f"{name}: {len(a)} matched pairs of classes before, {len(b)} after the round trip; "
                         f"missing {[repr(k) for k in set(a) - set(b)][:2]}", None)
        if any(json.dumps(a[k], sort_keys=True, default=str) != json.dumps(b[k], sort_keys=True, default=str) for k in a):
            cx.violation("C18:bijection-round-trip-changes-data", f"{name} differs for some matched pair", None)
    moved = 0
    try:
        for n in range(min(case["N"], 6) + 1):
            for w in rw.objects(case["c1"], n):
                a, b = bij.map(words.W(w)), bij2.map(words.W(w))
                cx.count("json.bijection_points_compared")
                moved += str(a) != w
                if str(a) != str(b):
                    cx.violation("C18:bijection-round-trip-maps-differ", f"{w!r}: map {a!r} vs {b!r}", None)
            for w in rw.objects(case["c2"], n):
                ia, ib = bij.inverse_map(words.W(w)), bij2.inverse_map(words.W(w))
                cx.count("json.bijection_points_compared")
                if str(ia) != str(ib):
                    cx.violation("C18:bijection-round-trip-maps-differ", f"{w!r}: inverse {ia!r} vs {ib!r}", None)
    except NotImplementedError:
        cx.count("json.bijection_maps_not_implemented")
    return {"nontrivial": len(order) >= 4 and (multi or moved > 0), "fingerprint": fp(case)}


def rt(obj):
    return json.loads(json.dumps(obj.to_jsonable()))


def both_ways(a, b):
    return bool(a == b) and bool(b == a)


def check_rule(rule, where):
    from comb_spec_searcher.strategies.rule import AbstractRule, EquivalencePathRule

    cx = base.ctx()
    form = type(rule).__name__
    cx.see("json.rule_form", form)
    back = AbstractRule.from_dict(rt(rule))
    cx.count("json.rules_round_tripped")
    if type(back) is not type(rule) or not both_ways(rule, back):
        why = "type" if type(back) is not type(rule) else (
            "strategy" if rule.comb_class == back.comb_class else "class")
        cx.violation(f"C18:rule-round-trip-unequal:{form}:{type(rule.strategy).__name__}",
                     f"{where}: {form} of {rule.strategy!r} on {rule.comb_class!r} != its JSON round trip ({why}); "
                     f"strategy dicts {rule.strategy.__dict__} vs {back.strategy.__dict__}",
                     {"form": form})
    if tuple(back.children) != tuple(rule.children):
        cx.violation(f"C18:rule-round-trip-children-differ:{form}", f"{where}: children {rule.children} vs {back.children}", None)
    if isinstance(rule, EquivalencePathRule):
        for i, link in enumerate(rule.rules):
            check_rule(link, f"{where}.link{i}")
        if len(back.rules) != len(rule.rules) or any(not both_ways(a, b) for a, b in zip(rule.rules, back.rules)):
            cx.violation("C18:path-links-differ", f"{where}: links changed in the round trip", None)
    orig = getattr(rule, "original_rule", None)
    if orig is not None:
        if not both_ways(orig, back.original_rule) or getattr(rule, "idx", None) != getattr(back, "idx", None):
            cx.violation(f"C18:original-rule-differs:{form}", f"{where}: original rule / index changed", None)


def check_strategy(s):
    from comb_spec_searcher.strategies.strategy import strategy_from_dict

    cx = base.ctx()
    back = strategy_from_dict(rt(s))
    cx.count("json.strategies_round_tripped")
    if type(back) is not type(s) or not both_ways(s, back):
        cx.violation(f"C18:strategy-round-trip-unequal:{type(s).__name__}",
                     f"{s!r} != its JSON round trip {back!r}: {getattr(s, '__dict__', None)} vs {getattr(back, '__dict__', None)}", None)
    # instantiation independence
    if hasattr(s, "__dict__") and hasattr(type(s), "__class_getitem__"):
        try:
            alias = type(s)[words.WC, words.W]
        except TypeError:
            try:
                alias = type(s)[words.WC]
            except TypeError:
                return
        d = rt(s)
        d.pop("class_module")
        d.pop("strategy_class")
        try:
            other = alias(**d)
        except TypeError:
            other = alias()
        cx.count("json.instantiation_pairs_compared")
        if not both_ways(s, other):
            cx.violation(f"C18:strategy-equality-depends-on-instantiation:{type(s).__name__}",
                         f"{type(s).__name__}(...) != {type(s).__name__}[...](...) with the same settings: "
                         f"{s.__dict__} vs {other.__dict__}", None)


def run_forms(case):
    """Round trip of every derived rule form of generated rules (wide reverse rules and
    reverse-of-equivalence forms are rare in specifications)."""
    from vdrive import rulelib

    cx = base.ctx()
    rng = intuniv.rng_for(case["seed"], "run")
    c = gen.build_class(case["cls"])
    derived = 0
    todo = []
    for strat in rulelib.strategies_for(rng):
        rule = rulelib.apply(strat, c)
        if rule is not None:
            todo.extend(rulelib.forms(rule))
    todo.extend(rulelib.chains(c, rng))
    # verification rules: plain, and with a child (a declared dependency - at rule level only:
    # the searcher cannot use such rules, it builds specifications in which the child has no rule)
    for ver in (words.PrefixVerified(1), words.DepVerified(1), words.StatAtom()):
        if ver.verified(c):
            todo.append(("verification" + ("-with-child" if isinstance(ver, words.DepVerified) else ""), ver(c), None))
    for name, form, reason in todo:
        if form is None:
            continue
        check_rule(form, name)
        cx.count("json.forms_round_tripped:" + name.split("[")[0])
        if name != "plain":
            derived += 1
    return {"nontrivial": derived >= 3, "fingerprint": fp(case["cls"])}


def run_case(case):
    if case.get("kind") == "forms":
        return run_forms(case)
    if case.get("kind") == "bij":
        return run_bij(case)
    from comb_spec_searcher import CombinatorialSpecification
    from comb_spec_searcher.isomorphism import Bijection
    from comb_spec_searcher.strategies.strategy import AtomStrategy, EmptyStrategy
    from comb_spec_searcher.strategies.strategy_pack import StrategyPack

    cx = base.ctx()
    pack = gen.build_pack(case["pack"])
    # pack and strategies
    back = StrategyPack.from_dict(rt(pack))
    cx.count("json.packs_round_tripped")
    if not both_ways(pack, back):
        diff = [k for k in pack.__dict__ if pack.__dict__[k] != back.__dict__.get(k)]
        cx.violation("C18:pack-round-trip-unequal", f"pack != its JSON round trip; differing fields {diff}", None)
    for s in list(pack) + [AtomStrategy(), EmptyStrategy()]:
        check_strategy(s)
    res = searchlib.run_search(case)
    if res.outcome != "spec":
        return {"skip": "no specification"}
    spec = res.spec
    prof = searchlib.spec_profile(spec)
    n_max = case["N"]
    for n in range(n_max + 1):
        spec.get_terms(n)  # forces the lazily added empty rules, as any use of the spec does
    if case.get("empty_root"):
        cx.count("json.specs_with_empty_root")
    if type(spec.root).__module__ != words.__name__:
        cx.count("json.specs_over_a_namesake_class")
    if case.get("ask_empty") and isinstance(spec.root, words.WC) and spec.root.patterns and spec.root.right is None:
        stranger = spec.root.with_(prefix=spec.root.prefix + "".join(spec.root.patterns), proper=False,
                                   just_prefix=False)
        if stranger.is_empty() and stranger not in spec.rules_dict:
            spec.get_rule(stranger)
            cx.count("json.specs_with_rule_for_a_stranger_empty_class")
    spec2 = CombinatorialSpecification.from_dict(rt(spec))
    cx.count("json.specs_round_tripped")
    lazily_empty = any(isinstance(r.strategy, EmptyStrategy) for r in spec.rules_dict.values())
    if lazily_empty:
        cx.count("json.specs_with_empty_rule")
    if set(spec.rules_dict) != set(spec2.rules_dict):
        cx.violation("C18:spec-round-trip-classes-differ", "the reloaded specification has rules for other classes", None)
    for cls, rule in spec.rules_dict.items():
        other = spec2.rules_dict[cls]
        if not both_ways(rule, other):
            cx.violation(f"C18:spec-rule-differs:{type(rule).__name__}:{type(rule.strategy).__name__}",
                         f"rule of {cls!r} ({type(rule).__name__}, {rule.strategy!r}) != the reloaded one "
                         f"({type(other).__name__}, {other.strategy!r}); strategy dicts {rule.strategy.__dict__} vs "
                         f"{other.strategy.__dict__}", None)
    if not both_ways(spec, spec2):
        cx.violation("C18:spec-round-trip-unequal", "specification != its JSON round trip", None)
    for n in range(n_max + 1):
        if rw.norm(spec.get_terms(n)) != rw.norm(spec2.get_terms(n)):
            cx.violation("C18:spec-round-trip-counts-differ", f"terms differ at size {n}", None)
    try:
        for n in range(min(n_max, 5) + 1):
            a = {k: sorted(map(str, v)) for k, v in spec.get_objects(n).items() if v}
            b = {k: sorted(map(str, v)) for k, v in spec2.get_objects(n).items() if v}
            if a != b:
                cx.violation("C18:spec-round-trip-objects-differ", f"objects differ at size {n}", None)
    except NotImplementedError:
        cx.count("json.objects_not_generating")
    if {str(e) for e in spec.get_equations()} != {str(e) for e in spec2.get_equations()}:
        cx.violation("C18:spec-round-trip-equations-differ", "equation sets differ", None)
    for cls, rule in spec.rules_dict.items():
        check_rule(rule, "spec")
    # bijection on the specification (self map, atoms only) and its round trip
    if all(r.comb_class.is_atom() or r.comb_class.is_empty() for r in spec.rules_dict.values() if not r.children):
        bij = Bijection.construct(spec, spec2)
        if bij is not None:
            bij2 = Bijection.from_dict(rt(bij))
            cx.count("json.bijections_round_tripped")
            try:
                for n in range(min(n_max, 5) + 1):
                    for w in rw.objects(case["cls"], n):
                        a, b = bij.map(words.W(w)), bij2.map(words.W(w))
                        ia, ib = bij.inverse_map(words.W(w)), bij2.inverse_map(words.W(w))
                        cx.count("json.bijection_points_compared")
                        if str(a) != str(b) or str(ia) != str(ib):
                            cx.violation("C18:bijection-round-trip-maps-differ",
                                         f"{w!r}: map {a!r} vs {b!r}, inverse {ia!r} vs {ib!r}", None)
            except NotImplementedError:
                cx.count("json.bijection_maps_not_implemented")
    forms = set(prof["kinds"])
    rich = lazily_empty or any(not k.startswith(("Rule:", "Verification:")) for k in forms)
    return {"nontrivial": prof["rules"] >= 4 and rich, "fingerprint": fp(case)}
