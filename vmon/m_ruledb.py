"""Recording wrappers on the rule databases (RuleDBBase.add, RuleDBForest.add,
link_searcher) and the oracles that are evaluated on the recorded log:

* C05  has_specification() == survival of the start class under R-gfp (R-iter for
       iterative packs) of the recorded rules collapsed by R-scc; is_verified agrees;
       trees from _get_specification_node are valid (R-tree) and, with smallest, minimal.
* C04  (see vmon.m_faithful) uses the same log.

The log is taken at the databases' client boundary: (start, ends, rule) exactly as the
searcher passed them.  What the key *should* be is recomputed here from the rule object
(children, possibly_empty, the classes' own emptiness), not read from the database.
"""
from vmon import base
from vref import graphs

base.add_deps_path()
import icontract  # noqa: E402

_SHADOW = {}
_INSTALLED = {}
_DEPTH = [0]
CONFIG = {"cap_labels": 150, "check_has_spec": True, "check_tree": True, "min_tree": False}


class Shadow:
    def __init__(self, db):
        self.db = db
        self.events = []  # dicts: start, ends, rule, key_ends, two_way, kind
        self.adopted = None if _is_fresh(db) else False  # False: history unknown (unpickled)

    def add_event(self, start, ends, rule, nested=False):
        from comb_spec_searcher.strategies.rule import VerificationRule

        children = rule.children
        keep = []
        for c, lab in zip(children, ends):
            if rule.possibly_empty and c.is_empty():
                continue
            keep.append(lab)
        ev = {
            "start": start, "ends": tuple(ends), "rule": rule, "key_ends": tuple(sorted(keep)),
            "two_way": bool(len(keep) == 1 and rule.is_two_way()),
            "verification": isinstance(rule, VerificationRule), "nested": nested,
        }
        self.events.append(ev)
        return ev

    # ---- oracle over the log (default / memory-saving databases)
    def collapsed(self):
        labels, edges = set(), []
        for ev in self.events:
            labels.add(ev["start"])
            labels.update(ev["key_ends"])
            if len(ev["key_ends"]) == 1 and ev["key_ends"][0] != ev["start"]:
                a, b = ev["start"], ev["key_ends"][0]
                edges.append((a, b))
                if ev["two_way"]:
                    edges.append((b, a))
        comp = graphs.scc(labels, edges)
        rd = {}
        for ev in self.events:
            s, ends = ev["start"], ev["key_ends"]
            if len(ends) == 1 and comp[s] == comp[ends[0]]:
                continue
            rd.setdefault(comp[s], set()).add(tuple(sorted(comp[e] for e in ends)))
        return comp, rd

    def expected_pruned(self, root_label, iterative):
        comp, rd = self.collapsed()
        root = comp.get(root_label)
        if root is None:
            return comp, rd, {}, None
        if iterative:
            _, have = graphs.iter_derivable(rd, root)
            pruned = have
        else:
            pruned = graphs.gfp_prune(rd)
        return comp, rd, pruned, root


def _is_fresh(db):
    try:
        if hasattr(db, "table_method"):
            return not db.table_method._rules
        return not len(db.rule_to_strategy) and not len(db.eqv_rule_to_strategy)
    except Exception:  # noqa: BLE001
        return True


def reset():
    _SHADOW.clear()


def shadow_of(db):
    sh = _SHADOW.get(id(db))
    if sh is None or sh.db is not db:
        sh = Shadow(db)
        _SHADOW[id(db)] = sh
    return sh


LISTENERS = []  # callables(db, shadow, event) invoked after every recorded add (C04, C14)


def _record_add(db, start, ends, rule, nested=False):
    sh = shadow_of(db)
    ev = sh.add_event(start, ends, rule, nested)
    base.ctx().count("ruledb.adds_recorded")
    return sh, ev


def has_spec_matches(self, result):
    if _DEPTH[0] > 0 or not CONFIG["check_has_spec"]:
        return True
    cx = base.ctx()
    sh = shadow_of(self)
    if sh.adopted is False:
        return True
    try:
        root_label = self.root_label
        iterative = self.strategy_pack.iterative
    except RuntimeError:
        return True
    comp, rd, pruned, root = sh.expected_pruned(root_label, iterative)
    if len(comp) > CONFIG["cap_labels"]:
        cx.count("ruledb.has_spec_skipped_by_cap")
        return True
    want = root is not None and root in pruned
    cx.count("ruledb.has_spec_compared")
    cx.count("ruledb.has_spec_compared_true" if want else "ruledb.has_spec_compared_false")
    if iterative:
        cx.count("ruledb.has_spec_compared_iterative")
    if root is not None and any(c == root and l != root_label for l, c in comp.items()):
        cx.count("ruledb.has_spec_compared_root_in_bigger_class")
    if bool(result) != want:
        mode = "iterative" if iterative else "recursive"
        cx.violation(f"C05:has-specification-wrong:{mode}:reported-{bool(result)}",
                     f"has_specification()={result} but the reference ({mode}) says {want}; "
                     f"root label {root_label}, {len(sh.events)} rules recorded",
                     {"keys": [[e['start'], list(e['key_ends']), e['two_way']] for e in sh.events][:80],
                      "root": root_label}, raise_=False)
        return False
    # verified set: a label is verified iff its class survives the pruning.  Judged for
    # recursive packs only: in iterative mode a label verified thanks to recursion into the
    # root's class keeps its mark when it is later merged *into* that class, which the
    # statement (about has_specification and the trees) does not forbid.
    if iterative:
        cx.count("ruledb.verified_set_not_judged_iterative")
        return True
    _DEPTH[0] += 1
    try:
        for lab, c in comp.items():
            got = self.is_verified(lab)
            cx.count("ruledb.is_verified_compared")
            if got != (c in pruned):
                cx.violation("C05:verified-set-wrong",
                             f"after has_specification(), is_verified({lab})={got}, reference {c in pruned}",
                             {"keys": [[e['start'], list(e['key_ends']), e['two_way']] for e in sh.events][:80]},
                             raise_=False)
                return False
    finally:
        _DEPTH[0] -= 1
    return True


def node_valid(self, minimization_time_limit, smallest, result):
    if _DEPTH[0] > 0 or not CONFIG["check_tree"]:
        return True
    cx = base.ctx()
    sh = shadow_of(self)
    if sh.adopted is False:
        return True
    iterative = self.strategy_pack.iterative
    comp, rd, pruned, root = sh.expected_pruned(self.root_label, iterative)
    if len(comp) > CONFIG["cap_labels"]:
        return True
    # translate the tree's labels (the DB's representatives) into component ids
    def conv(node):
        from comb_spec_searcher.tree_searcher import Node

        return Node(comp.get(node.label, ("unknown", node.label)), [conv(c) for c in node.children])

    tree = conv(result)
    cx.count("ruledb.trees_checked")
    err = graphs.tree_check(tree, rd, root, allow_root_leaf=iterative)
    if err:
        cx.violation("C05:invalid-proof-tree:get_specification_node", err,
                     {"tree": str(result)}, raise_=False)
        return False
    if smallest and not iterative:
        best = graphs.min_tree_size(pruned, root)
        if best is None:
            cx.count("ruledb.min_tree_inconclusive")
        else:
            cx.count("ruledb.smallest_compared")
            if len(result) != best:
                cx.violation("C05:smallest-not-minimal",
                             f"smallest tree has {len(result)} nodes, exhaustive minimum is {best}",
                             {"tree": str(result)}, raise_=False)
                return False
    return True


def _err_has(self):
    return base.Violation("C05:contract", "has_specification postcondition")


def _err_node(self, minimization_time_limit, smallest):
    return base.Violation("C05:contract", "_get_specification_node postcondition")


def install():
    from comb_spec_searcher.rule_db import base as rbase
    from comb_spec_searcher.rule_db import forest as rforest

    if _INSTALLED:
        return
    B = rbase.RuleDBBase
    F = rforest.RuleDBForest
    orig_add = B.add
    orig_fadd = F.add
    _INSTALLED.update(add=orig_add, fadd=orig_fadd)

    def add(self, start, ends, rule):
        outer = _DEPTH[0] == 0
        if outer:
            sh, ev = _record_add(self, start, ends, rule)
        _DEPTH[0] += 1
        try:
            res = orig_add(self, start, ends, rule)
        finally:
            _DEPTH[0] -= 1
        if outer:
            for fn in LISTENERS:
                fn(self, sh, ev)
        return res

    def fadd(self, start, ends, rule):
        # the forest database adds explicit empty rules by calling back into the searcher,
        # which calls add again: those nested adds are recorded too, flagged
        sh, ev = _record_add(self, start, ends, rule, nested=_DEPTH[0] > 0)
        _DEPTH[0] += 1
        try:
            res = orig_fadd(self, start, ends, rule)
        finally:
            _DEPTH[0] -= 1
        for fn in LISTENERS:
            fn(self, sh, ev)
        return res

    B.add = add
    F.add = fadd

    def body_has(self):
        _DEPTH[0] += 1
        try:
            return _INSTALLED["has"](self)
        finally:
            _DEPTH[0] -= 1

    _INSTALLED["has"] = B.has_specification
    B.has_specification = icontract.ensure(has_spec_matches, error=_err_has)(body_has)

    def body_node(self, minimization_time_limit, smallest):
        _DEPTH[0] += 1
        try:
            return _INSTALLED["node"](self, minimization_time_limit, smallest)
        finally:
            _DEPTH[0] -= 1

    _INSTALLED["node"] = B._get_specification_node
    B._get_specification_node = icontract.ensure(node_valid, error=_err_node)(body_node)
