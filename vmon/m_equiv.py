"""C06 monitors on the real EquivalenceDB.

Shadow (kept here, fed by recording wrappers at the public boundary): directed edges,
externally marked labels, and the partition the DB is *obliged* to know already
(components found at the last cycle detection, merged by two-way edges since).

* ensure on connect_cycles: afterwards equivalent(a, b) <=> mutual reachability (R-scc),
  is_verified(a) <=> some label of a's component was marked.
* ensure on equivalent / is_verified at any time: obliged partition <= answer <= R-scc.
* ensure on find_path: starts at a, ends at b, follows recorded edges only.
"""
import functools

from vmon import base
from vref import graphs

base.add_deps_path()
import icontract  # noqa: E402

_SHADOW = {}
_INSTALLED = {}
_DEPTH = [0]
CONFIG = {"cap_labels": 80}


class Shadow:
    def __init__(self, db):
        self.db = db
        self.edges = set()
        self.labels = set()
        self.marks = set()
        self.known = graphs.UnionFind()  # what the DB is obliged to know
        self.fresh = True  # no edge since the last cycle detection
        self._comp = None
        # a database not seen at construction (unpickled): its history is unknown, nothing is
        # judged (shadows of databases seen at construction are created by the __init__ wrapper)
        self.partial = True

    def add_edge(self, a, b, two_way):
        self.labels.update((a, b))
        if a != b:
            self.edges.add((a, b))
            if two_way:
                self.edges.add((b, a))
            if two_way:
                self.known.union(a, b)
            self.fresh = False
            self._comp = None

    def comp(self):
        if self._comp is None:
            self._comp = graphs.scc(self.labels, self.edges)
        return self._comp

    def same(self, a, b):
        if a == b:
            return True
        c = self.comp()
        return a in c and b in c and c[a] == c[b]

    def marked_in_comp(self, a):
        c = self.comp()
        if a not in c:
            return a in self.marks
        return any(m == a or (m in c and c[m] == c[a]) for m in self.marks)


def reset():
    _SHADOW.clear()


def shadow_of(db):
    ent = _SHADOW.get(id(db))
    if ent is None or ent.db is not db:
        ent = Shadow(db)
        _SHADOW[id(db)] = ent
    return ent


def _outer():
    return _DEPTH[0] == 0


def _wrap_recording(cls, name, record):
    orig = getattr(cls, name)

    def wrapper(self, *args, **kwargs):
        outer = _outer()
        if outer:
            record(shadow_of(self), *args, **kwargs)
        _DEPTH[0] += 1
        try:
            return orig(self, *args, **kwargs)
        finally:
            _DEPTH[0] -= 1

    wrapper.__name__ = name
    wrapper.__wrapped__ = orig
    setattr(cls, name, wrapper)
    return orig


def _rec_one_way(sh, label, other_label):
    base.ctx().count("equiv.one_way_edges")
    sh.add_edge(label, other_label, False)


def _rec_two_way(sh, label, other_label):
    base.ctx().count("equiv.two_way_edges")
    sh.add_edge(label, other_label, True)


def _rec_mark(sh, comb_class):
    base.ctx().count("equiv.marks")
    sh.labels.add(comb_class)
    sh.marks.add(comb_class)


# ------------------------------------------------------------------ contracts


def _error(self):
    return base.Violation("C06:contract", "EquivalenceDB postcondition")


def _error2(self, label, other_label):
    return base.Violation("C06:contract", "EquivalenceDB postcondition")


def _error1(self, comb_class):
    return base.Violation("C06:contract", "EquivalenceDB postcondition")


def _errorp(self, comb_class, other_comb_class):
    return base.Violation("C06:contract", "EquivalenceDB postcondition")


def matches_scc(self):
    """Postcondition of connect_cycles."""
    if _DEPTH[0] > 0:
        return True
    if shadow_of(self).partial:
        base.ctx().count("equiv.unknown_history_not_judged")
        return True
    cx = base.ctx()
    sh = shadow_of(self)
    comp = sh.comp()
    # from now on the DB is obliged to know the components
    reps = {}
    for lab, c in comp.items():
        if c in reps:
            sh.known.union(lab, reps[c])
        else:
            reps[c] = lab
    sh.fresh = True
    labels = sorted(sh.labels)
    cx.count("equiv.cycle_detections")
    if len(labels) > CONFIG["cap_labels"]:
        cx.count("equiv.scc_skipped_by_cap")
        return True
    _DEPTH[0] += 1
    try:
        for i, a in enumerate(labels):
            ver = self.is_verified(a)
            want = sh.marked_in_comp(a)
            cx.count("equiv.verified_compared")
            if ver != want:
                cx.violation("C06:verified-wrong-after-cycle-detection",
                             f"is_verified({a})={ver} but a label of its component was"
                             f"{'' if want else ' never'} marked",
                             {"edges": sorted(sh.edges), "marks": sorted(sh.marks)}, raise_=False)
                return False
            for b in labels[i + 1:]:
                got = self.equivalent(a, b)
                cx.count("equiv.pairs_compared_after_detection")
                if got != sh.same(a, b):
                    cx.violation("C06:not-scc-after-cycle-detection",
                                 f"equivalent({a},{b})={got}, mutual reachability={sh.same(a, b)}",
                                 {"edges": sorted(sh.edges)}, raise_=False)
                    return False
    finally:
        _DEPTH[0] -= 1
    return True


def equivalent_bounded(self, label, other_label, result):
    if _DEPTH[0] > 0:
        return True
    if shadow_of(self).partial:
        base.ctx().count("equiv.unknown_history_not_judged")
        return True
    cx = base.ctx()
    sh = shadow_of(self)
    if len(sh.labels) > 4 * CONFIG["cap_labels"]:
        return True
    cx.count("equiv.equivalent_checked")
    upper = sh.same(label, other_label)
    lower = label == other_label or sh.known.find(label) == sh.known.find(other_label)
    if result and not upper:
        cx.violation("C06:equivalent-unsound",
                     f"equivalent({label},{other_label}) is True but the labels are not mutually reachable",
                     {"edges": sorted(sh.edges)}, raise_=False)
        return False
    if lower and not result:
        cx.violation("C06:equivalence-forgotten",
                     f"equivalent({label},{other_label}) is False although a two-way edge or an earlier "
                     "cycle detection established it",
                     {"edges": sorted(sh.edges)}, raise_=False)
        return False
    if sh.fresh and result != upper:
        cx.violation("C06:not-scc-after-cycle-detection",
                     f"equivalent({label},{other_label})={result}, mutual reachability={upper}",
                     {"edges": sorted(sh.edges)}, raise_=False)
        return False
    return True


def verified_bounded(self, comb_class, result):
    if _DEPTH[0] > 0:
        return True
    if shadow_of(self).partial:
        base.ctx().count("equiv.unknown_history_not_judged")
        return True
    cx = base.ctx()
    sh = shadow_of(self)
    if len(sh.labels) > 4 * CONFIG["cap_labels"]:
        return True
    cx.count("equiv.is_verified_checked")
    upper = sh.marked_in_comp(comb_class)
    root = sh.known.find(comb_class)
    lower = any(m == comb_class or sh.known.find(m) == root for m in sh.marks)
    if result and not upper:
        cx.violation("C06:verified-unsound",
                     f"is_verified({comb_class}) is True but no label of its component was marked",
                     {"edges": sorted(sh.edges), "marks": sorted(sh.marks)}, raise_=False)
        return False
    if lower and not result:
        cx.violation("C06:verified-lost",
                     f"is_verified({comb_class}) is False although a label known to be equivalent was marked",
                     {"edges": sorted(sh.edges), "marks": sorted(sh.marks)}, raise_=False)
        return False
    if sh.fresh and result != upper:
        cx.violation("C06:verified-wrong-after-cycle-detection",
                     f"is_verified({comb_class})={result}, expected {upper}",
                     {"edges": sorted(sh.edges), "marks": sorted(sh.marks)}, raise_=False)
        return False
    return True


def path_valid(self, comb_class, other_comb_class, result):
    if _DEPTH[0] > 0:
        return True
    if shadow_of(self).partial:
        base.ctx().count("equiv.unknown_history_not_judged")
        return True
    cx = base.ctx()
    sh = shadow_of(self)
    cx.count("equiv.paths_checked")
    path = tuple(result)
    ok = (len(path) >= 1 and path[0] == comb_class and path[-1] == other_comb_class
          and all((a, b) in sh.edges for a, b in zip(path, path[1:])))
    if len(path) > 1:
        cx.count("equiv.paths_checked_nontrivial")
    if not ok:
        cx.violation("C06:bad-explanation-path",
                     f"find_path({comb_class},{other_comb_class}) returned {path}",
                     {"edges": sorted(sh.edges)}, raise_=False)
    return ok


def _with_depth(orig, names):
    """Raise the depth counter for the duration of the body.  icontract evaluates the
    postcondition after the body has returned, i.e. with the depth restored: it is 0
    exactly for calls made by a client, and the conditions skip everything else (calls the
    DB makes to its own public methods are implementation detail).  The wrapper is built
    with the explicit parameter names icontract needs to bind condition arguments."""
    params = ", ".join(names)
    src = (
        f"def body({params}):\n"
        f"    _DEPTH[0] += 1\n"
        f"    try:\n"
        f"        return orig({params})\n"
        f"    finally:\n"
        f"        _DEPTH[0] -= 1\n"
    )
    ns = {"_DEPTH": _DEPTH, "orig": orig}
    exec(src, ns)  # noqa: S102 - fixed template, names from this module only
    body = ns["body"]
    body.__name__ = orig.__name__
    body.__doc__ = orig.__doc__
    return body


def install():
    from comb_spec_searcher import equiv_db

    if _INSTALLED:
        return
    E = equiv_db.EquivalenceDB
    orig_init = E.__init__

    def __init__(self):
        orig_init(self)
        shadow_of(self).partial = False

    E.__init__ = __init__
    E.connect_cycles = icontract.ensure(matches_scc, error=_error)(_with_depth(E.connect_cycles, ["self"]))
    E.equivalent = icontract.ensure(equivalent_bounded, error=_error2)(_with_depth(E.equivalent, ["self", "label", "other_label"]))
    E.is_verified = icontract.ensure(verified_bounded, error=_error1)(_with_depth(E.is_verified, ["self", "comb_class"]))
    E.find_path = icontract.ensure(path_valid, error=_errorp)(_with_depth(E.find_path, ["self", "comb_class", "other_comb_class"]))
    _INSTALLED["one"] = _wrap_recording(E, "add_one_way_edge", _rec_one_way)
    _INSTALLED["two"] = _wrap_recording(E, "add_two_way_edge", _rec_two_way)
    _INSTALLED["mark"] = _wrap_recording(E, "set_verified", _rec_mark)
