"""Scripted randomness.  Every random decision of the library (and of the word universe's
samplers) is routed to one ScriptedRNG:

    strategies.constructor.cartesian.random  (random.randint)
    strategies.constructor.disjoint.randint
    strategies.rule.random                   (random.choice)
    tree_searcher.choice / tree_searcher.shuffle
    vuniv.words.random                       (random.choice)

Mode 'seeded' replays a seeded stream.  Mode 'script' follows a list of decision
indices and records the domain size of every decision, which lets the driver enumerate
*all* decision sequences of a sampler with their exact probabilities (odometer)."""
import random as _random
from fractions import Fraction


class ScriptedRNG:
    def __init__(self, seed=0):
        self.mode = "seeded"
        self.rand = _random.Random(seed)
        self.script = []
        self.trace = []  # (domain_size, chosen_index)
        self.log = None  # optional list of (kind, domain descriptor, choice)

    # -- control
    def reseed(self, seed):
        self.mode = "seeded"
        self.rand = _random.Random(seed)
        self.trace = []

    def follow(self, script):
        self.mode = "script"
        self.script = list(script)
        self.trace = []

    def _pick(self, n, kind, dom=None):
        if n <= 0:
            raise ValueError("empty domain for a random decision")
        if self.mode == "seeded":
            i = self.rand.randrange(n)
        else:
            pos = len(self.trace)
            i = self.script[pos] if pos < len(self.script) else 0
            if i >= n:
                raise IndexError("script index outside the decision's domain")
        self.trace.append((n, i))
        if self.log is not None:
            self.log.append((kind, dom if dom is not None else n, i))
        return i

    def probability(self):
        p = Fraction(1)
        for n, _ in self.trace:
            p /= n
        return p

    # -- the random API surface the library uses
    def randint(self, a, b):
        return a + self._pick(b - a + 1, "randint", (a, b))

    def choice(self, seq):
        seq = list(seq)
        return seq[self._pick(len(seq), "choice", len(seq))]

    def shuffle(self, lst):
        # Fisher-Yates through _pick so that it is scriptable
        for i in range(len(lst) - 1, 0, -1):
            j = self._pick(i + 1, "shuffle")
            lst[i], lst[j] = lst[j], lst[i]

    def random(self):
        return self._pick(1 << 20, "random") / float(1 << 20)

    def randrange(self, n):
        return self._pick(n, "randrange")


def next_script(trace):
    """Odometer: the next decision sequence after the one recorded in `trace`
    (depth-first over the decision tree); None when the tree is exhausted."""
    t = list(trace)
    while t:
        n, i = t[-1]
        if i + 1 < n:
            return [x for _, x in t[:-1]] + [i + 1]
        t.pop()
    return None


_SAVED = {}
RNG = ScriptedRNG()


def install(rng=None):
    """Route the library's random decisions to `rng` (idempotent)."""
    global RNG
    import comb_spec_searcher.strategies.constructor.cartesian as cart
    import comb_spec_searcher.strategies.constructor.disjoint as disj
    import comb_spec_searcher.strategies.rule as rule_mod
    import comb_spec_searcher.tree_searcher as ts

    if rng is not None:
        RNG = rng
    if not _SAVED:
        _SAVED.update(cart=cart.random, disj=disj.randint, rule=rule_mod.random,
                      choice=ts.choice, shuffle=ts.shuffle)
    proxy = _Proxy()
    cart.random = proxy
    disj.randint = proxy.randint
    rule_mod.random = proxy
    ts.choice = proxy.choice
    ts.shuffle = proxy.shuffle
    try:
        import vuniv.words as w

        _SAVED.setdefault("words", w.random)
        w.random = proxy
    except ImportError:
        pass
    return RNG


class _Proxy:
    """Forwards to the current RNG object (so drivers can swap it between cases)."""

    @staticmethod
    def randint(a, b):
        return RNG.randint(a, b)

    @staticmethod
    def choice(seq):
        return RNG.choice(seq)

    @staticmethod
    def shuffle(lst):
        return RNG.shuffle(lst)

    @staticmethod
    def random():
        return RNG.random()

    @staticmethod
    def randrange(n):
        return RNG.randrange(n)


def set_rng(rng):
    global RNG
    RNG = rng
    return rng
