"""C04 monitor: the rule universe recorded by the searcher is faithful to the strategies.

A listener on every `ruledb.add(start, ends, rule)` (vmon.m_ruledb records them at the
client boundary, for all three databases) checks online:

  parent     classdb.get_class(start) == rule.comb_class
  children   the classes behind `ends` are exactly rule.children, in order
  genuine    re-applying rule.strategy to rule.comb_class applies and gives these children;
             the strategy is one of the pack's or produced by one of its factories
  key        default / memory-saving DB: the key (start, sorted labels of the children that
             are not [possibly-empty and truly empty]) is stored afterwards;
             forest DB: exactly the predicted forest keys were inserted into the table
             (main key, reverse keys iff reverse is on and the rule is reversible), and every
             truly empty child of a possibly-empty rule got its explicit empty rule – once
and offline (end of run): the set of stored keys equals the set predicted from the log.
Labels: the C15 contracts on ClassDB are installed alongside (equal classes one label).
"""
from vmon import base, m_ruledb, m_spec, m_table

CONFIG = {"truth_empty": None, "enabled": True}
_STATE = {}  # id(db) -> dict


def reset():
    _STATE.clear()


def _truly_empty(c):
    fn = CONFIG["truth_empty"]
    return fn(c) if fn is not None else bool(c.is_empty())


def _state(db):
    st = _STATE.get(id(db))
    if st is None or st["db"] is not db:
        st = {"db": db, "general": set(), "eqv": set(), "empty_rule_for": {}, "table_pos": 0,
              "pending_nested": []}
        _STATE[id(db)] = st
    return st


def _predict_forest_keys(db, ev):
    from comb_spec_searcher.strategies.rule import VerificationRule
    from comb_spec_searcher.typing import ForestRuleKey, RuleBucket

    rule = ev["rule"]
    labels = tuple(ev["ends"])
    start = ev["start"]

    def bucket_of(r, nonempty_count, reverse):
        if isinstance(r, VerificationRule):
            return RuleBucket.VERIFICATION
        eqv = r.strategy.can_be_equivalent() and nonempty_count == 1 and r.constructor.can_be_equivalent()
        if eqv:
            return RuleBucket.EQUIV
        return RuleBucket.REVERSE if reverse else RuleBucket.NORMAL

    # Emptiness of a child is the truth - except for a truly empty child of a rule that
    # admits no empty children.  That only happens below an empty parent, and there the class
    # database holds what a client told it (add_rule: "non-empty", the strategy's promise;
    # _symmetry_expand: the parent's emptiness), which is an input to the rule database, not
    # its doing: the keys are predicted from that recorded belief.
    def child_empty(c):
        if not _truly_empty(c):
            return False
        if rule.possibly_empty:
            return True
        base.ctx().count("faithful.emptiness_as_told_by_client")
        return bool(db.classdb.is_empty(c, db.classdb.get_label(c)))

    nonempty = sum(1 for c in rule.children if not child_empty(c))
    keys = [ForestRuleKey(start, labels, tuple(rule.shifts()), bucket_of(rule, nonempty, False))]
    if db.reverse and rule.is_reversible():
        sh = tuple(rule.shifts())
        for i in range(len(rule.children)):
            rev = rule.to_reverse_rule(i)
            pshift = -sh[i]
            rsh = (pshift,) + tuple(s + pshift for j, s in enumerate(sh) if j != i)
            rlabels = (start,) + tuple(l for j, l in enumerate(labels) if j != i)
            others = tuple(c for j, c in enumerate(rule.children) if j != i)
            rnonempty = (0 if _truly_empty(rule.comb_class) else 1) + sum(1 for c in others if not child_empty(c))
            keys.append(ForestRuleKey(labels[i], rlabels, rsh, bucket_of(rev, rnonempty, True)))
    return keys


def on_add(db, shadow, ev):
    if not CONFIG["enabled"]:
        return
    from comb_spec_searcher.exception import StrategyDoesNotApply
    from comb_spec_searcher.strategies.rule import VerificationRule

    cx = base.ctx()
    cx.count("faithful.adds_checked")
    rule, start, ends = ev["rule"], ev["start"], ev["ends"]
    classdb = db.classdb
    wit = {"start": start, "ends": list(ends), "rule": str(rule.formal_step), "class": repr(rule.comb_class)}
    if classdb.get_class(start) != rule.comb_class:
        cx.violation("C04:parent-label-mismatch",
                     f"rule for {rule.comb_class!r} recorded under label {start} = {classdb.get_class(start)!r}", wit)
    kids = tuple(rule.children)
    if len(kids) != len(ends) or any(classdb.get_class(l) != c for l, c in zip(ends, kids)):
        cx.violation("C04:child-labels-mismatch",
                     f"labels {tuple(ends)} = {[repr(classdb.get_class(l)) for l in ends]} recorded for children {kids}", wit)
    try:
        again = tuple(rule.strategy(rule.comb_class).children)
    except StrategyDoesNotApply:
        cx.violation("C04:rule-of-non-applying-strategy",
                     f"{rule.strategy!r} does not apply to {rule.comb_class!r} but a rule was recorded", wit)
    if again != kids:
        cx.violation("C04:rule-not-genuine", f"{rule.strategy!r} on {rule.comb_class!r} gives {again}, recorded {kids}", wit)
    if not m_spec._allowed_strategy(rule.strategy, rule.comb_class, tuple(rule.children)):
        cx.violation("C04:strategy-not-in-pack", f"{rule.strategy!r} is not in (or produced by) the pack", wit)
    cx.see("faithful.strategy", type(rule.strategy).__name__)
    st = _state(db)
    if hasattr(db, "table_method"):
        _forest(db, st, ev, wit)
        return
    # default / memory-saving database: key with truly-empty children (of possibly-empty rules) omitted
    keep = tuple(sorted(l for l, c in zip(ends, kids) if not (rule.possibly_empty and _truly_empty(c))))
    dropped = len(kids) - len(keep)
    if dropped:
        cx.count("faithful.empty_children_omitted", dropped)
    key = (start, keep)
    two_way = len(keep) == 1 and rule.is_two_way()
    if two_way:
        st["eqv"].add(key)
        st["general"].discard(key)
        st["general"].discard((keep[0], (start,)))
        cx.count("faithful.two_way_keys")
    else:
        st["general"].add(key)
    stored = key in db.eqv_rule_to_strategy if two_way else key in db.rule_to_strategy
    cx.count("faithful.keys_checked")
    if not stored:
        cx.violation("C04:key-not-stored", f"after add, key {key} ({'two-way' if two_way else 'general'}) is not stored",
                     wit)
    if isinstance(rule, VerificationRule) and not db.is_verified(start):
        cx.violation("C04:verification-not-registered", f"label {start} not verified after its verification rule", wit)


def _forest(db, st, ev, wit):
    cx = base.ctx()
    rule = ev["rule"]
    if ev["nested"]:
        st["pending_nested"].append(ev)
        # an explicit empty rule: must be for a truly empty class, at most once per label
        if not _truly_empty(rule.comb_class):
            cx.violation("C04:empty-rule-for-non-empty-class", f"empty rule recorded for {rule.comb_class!r}", wit)
        n = st["empty_rule_for"].get(ev["start"], 0) + 1
        st["empty_rule_for"][ev["start"]] = n
        if n > 1:
            cx.violation("C04:empty-rule-twice", f"label {ev['start']} got its empty rule {n} times", wit)
        cx.count("faithful.forest_empty_rules")
        return
    nested, st["pending_nested"] = st["pending_nested"], []
    expected = []
    for nev in nested:
        expected.extend(_predict_forest_keys(db, nev))
    expected.extend(_predict_forest_keys(db, ev))
    inserted = m_table.shadow_of_keys(db.table_method)
    new = list(inserted[st["table_pos"]:])
    st["table_pos"] = len(inserted)
    cx.count("faithful.forest_keys_checked", len(expected))
    if any(k.bucket.name == "REVERSE" for k in new):
        cx.count("faithful.forest_reverse_keys_seen")
    if new != expected:
        cx.violation("C04:forest-keys-differ",
                     f"table received {[tuple(k) for k in new]}, predicted {[tuple(k) for k in expected]}", wit)
    # every truly empty child of a possibly-empty rule has its empty rule by now
    if rule.possibly_empty:
        for l, c in zip(ev["ends"], rule.children):
            if _truly_empty(c) and st["empty_rule_for"].get(l, 0) != 1:
                cx.violation("C04:empty-child-without-empty-rule",
                             f"truly empty child {c!r} (label {l}) has {st['empty_rule_for'].get(l, 0)} empty rules", wit)


def final_check(db):
    """Offline: stored keys == keys predicted from the log."""
    cx = base.ctx()
    st = _STATE.get(id(db))
    if st is None or hasattr(db, "table_method"):
        return
    cx.count("faithful.final_key_sets_compared")
    stored = set(db)
    predicted = st["general"] | st["eqv"]
    if stored != predicted:
        cx.violation("C04:stored-keys-differ-from-log",
                     f"stored-not-predicted {sorted(stored - predicted)[:5]}, predicted-not-stored {sorted(predicted - stored)[:5]}",
                     None)


def install():
    m_ruledb.install()
    m_table.install()
    if on_add not in m_ruledb.LISTENERS:
        m_ruledb.LISTENERS.append(on_add)
