"""W5: the repository's own test suite as a workload, run with ambient monitors on.

    VERIF_W5_MONITORS=classdb,queue,equiv,table,ruledb,spec,objects,faithful,forest,diff,bijection  VERIF_W5_OUT=<file> \
        pytest -p vmon.pytest_plugin ...

Monitors report into one context for the whole session; violations do not abort the tests
(raise_ is suppressed) - they are written to VERIF_W5_OUT together with the evaluation
counters.  A monitor that fires here is either too strict or has found a defect the tests
do not assert: read the witness before doing anything about it."""
import json
import os

from vmon import base

base.add_deps_path()

_NAMES = [m for m in os.environ.get("VERIF_W5_MONITORS", "").split(",") if m]


def pytest_configure(config):
    import comb_spec_searcher  # noqa: F401

    for name in _NAMES:
        if name == "classdb":
            from vmon import m_classdb as m
        elif name == "queue":
            from vmon import m_queue as m
        elif name == "equiv":
            from vmon import m_equiv as m
        elif name == "table":
            from vmon import m_table as m
        elif name == "ruledb":
            from vmon import m_ruledb as m
        elif name == "spec":
            from vmon import m_spec as m
        elif name == "objects":
            from vmon import m_objects as m
        elif name == "faithful":
            from vmon import m_faithful as m
        elif name == "forest":
            from vmon import m_forest as m
        elif name == "diff":
            from vmon import m_diff as m
        elif name == "bijection":
            from vmon import m_bijection as m
        else:
            raise ValueError(name)
        m.install()
    base.new_ctx()


def pytest_sessionfinish(session, exitstatus):
    cx = base.ctx()
    out = os.environ.get("VERIF_W5_OUT")
    if out:
        with open(out, "w") as f:
            json.dump({"counters": cx.counters, "violations": cx.violations, "exitstatus": int(exitstatus),
                       "seen": {k: sorted(map(str, v)) for k, v in cx.seen.items()}}, f, default=str)
