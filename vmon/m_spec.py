"""C02 monitor: every CombinatorialSpecification that is constructed – by a search, by
expand_verified, by the parallel finder, from JSON – is examined right after construction.

The recording wrapper on __init__ materialises the `rules` iterable (to see duplicates
the dictionary would swallow) and then runs `spec_wellformed`:

  closed       the root has a rule; every class on a right-hand side (constituents of
               equivalence paths included) has a rule or is truly empty; lazily added
               empty rules only for truly empty classes
  one rule     no class twice in the stream of rules
  genuine      every rule form re-applied: plain (strategy(class).children == children,
               strategy belongs to / is produced by one of the packs in play),
               verification (strategy.verified), equivalence (genuine original, the one
               non-empty child), reverse (genuine original, right class and children),
               path (genuine links that chain)
  productive   R-lfp over (parent, children, shifts) read per rule form: every class with
               a rule yields unboundedly many terms

CONTEXT lets a driver tell the monitor which packs are in play and whether productivity
is to be judged (structure-only universes are judged on it only under the forest DB).
"""
from vmon import base
from vref import lfp as rlfp

_INSTALLED = {}
CONTEXT = {"packs": None, "judge_productivity": True, "truth_empty": None, "enabled": True}
LAST = {"spec": None}


def set_context(packs=None, judge_productivity=True, truth_empty=None, enabled=True):
    CONTEXT.update(packs=packs, judge_productivity=judge_productivity, truth_empty=truth_empty,
                   enabled=enabled)


def _truly_empty(c):
    fn = CONTEXT["truth_empty"]
    if fn is not None:
        return fn(c)
    return bool(c.is_empty())


def _allowed_strategy(strategy, comb_class, children=()):
    """Is `strategy` one of the packs' strategies, or produced by one of their factories
    on this class - or, for rules about another class than the one being expanded, on one of
    the rule's children (a factory may yield a rule whose parent is not the class it was
    called on; the searcher meets it while expanding that other class)?"""
    from comb_spec_searcher.strategies.rule import AbstractRule
    from comb_spec_searcher.strategies.strategy import AbstractStrategy, EmptyStrategy, StrategyFactory

    packs = CONTEXT["packs"]
    if packs is None:
        return True
    if isinstance(strategy, EmptyStrategy):
        return True
    for pack in packs:
        for s in pack:
            if isinstance(s, StrategyFactory):
                for c in (comb_class,) + tuple(children):
                    try:
                        for x in s(c):
                            cand = x.strategy if isinstance(x, AbstractRule) else x
                            if isinstance(cand, AbstractStrategy) and cand == strategy:
                                if c is comb_class or (isinstance(x, AbstractRule) and x.comb_class == comb_class):
                                    return True
                    except Exception:  # noqa: BLE001
                        pass
            elif s == strategy:
                return True
    return False


def _genuine(rule, path="rule"):
    """Re-apply.  Returns None or a complaint."""
    from comb_spec_searcher.exception import StrategyDoesNotApply
    from comb_spec_searcher.strategies.rule import (
        EquivalencePathRule,
        EquivalenceRule,
        ReverseRule,
        Rule,
        VerificationRule,
    )

    cx = base.ctx()
    cx.count("spec.rules_reapplied")
    if isinstance(rule, VerificationRule):
        cx.see("spec.rule_form", "verification")
        if tuple(rule.children) != ():
            return None  # verification rules with dependencies: not produced by any workload
        if not rule.strategy.verified(rule.comb_class):
            return f"{path}: verification strategy {rule.strategy!r} does not verify {rule.comb_class!r}"
        if not _allowed_strategy(rule.strategy, rule.comb_class, getattr(rule, 'children', ())):
            return f"{path}: verification strategy {rule.strategy!r} is not in the pack"
        return None
    if isinstance(rule, EquivalencePathRule):
        cx.see("spec.rule_form", "path")
        links = list(rule.rules)
        if not links:
            return f"{path}: empty equivalence path"
        if rule.comb_class != links[0].comb_class or tuple(rule.children) != tuple(links[-1].children):
            return f"{path}: path ends do not match its links"
        for a, b in zip(links, links[1:]):
            if len(a.children) != 1 or a.children[0] != b.comb_class:
                return f"{path}: links do not chain at {a.children} -> {b.comb_class!r}"
        for i, link in enumerate(links):
            if len(link.children) != 1:
                return f"{path}: link {i} has {len(link.children)} children"
            err = _genuine(link, f"{path}.link{i}")
            if err:
                return err
        return None
    if isinstance(rule, EquivalenceRule):
        cx.see("spec.rule_form", "equivalence" + ("(reverse)" if isinstance(rule.original_rule, ReverseRule) else ""))
        orig = rule.original_rule
        err = _genuine(orig, path + ".original")
        if err:
            return err
        nonempty = [c for c in orig.children if not _truly_empty(c)]
        if len(nonempty) != 1:
            return f"{path}: equivalence form of a rule with {len(nonempty)} non-empty children"
        if tuple(rule.children) != (nonempty[0],) or rule.comb_class != orig.comb_class:
            return f"{path}: equivalence rule child {rule.children} is not the non-empty child {nonempty[0]!r}"
        return None
    if isinstance(rule, ReverseRule):
        cx.see("spec.rule_form", "reverse" + ("(unary)" if len(rule.children) == 1 else ""))
        if len(rule.children) > 1:
            cx.count("spec.reverse_rules_with_siblings")
        orig = rule.original_rule
        err = _genuine(orig, path + ".original")
        if err:
            return err
        idx = rule.idx
        if not 0 <= idx < len(orig.children) or rule.comb_class != orig.children[idx]:
            return f"{path}: reverse rule's class is not child {idx} of the original"
        want = (orig.comb_class,) + tuple(orig.children[:idx]) + tuple(orig.children[idx + 1:])
        if tuple(rule.children) != want:
            return f"{path}: reverse rule's children {rule.children} differ from {want}"
        if not orig.is_reversible():
            return f"{path}: reverse of a rule that is not reversible"
        return None
    if isinstance(rule, Rule):
        cx.see("spec.rule_form", "plain")
        try:
            again = rule.strategy(rule.comb_class)
            kids = tuple(again.children)
        except StrategyDoesNotApply:
            return f"{path}: strategy {rule.strategy!r} does not apply to {rule.comb_class!r}"
        if kids != tuple(rule.children):
            return f"{path}: strategy {rule.strategy!r} on {rule.comb_class!r} gives {kids}, rule has {tuple(rule.children)}"
        if not _allowed_strategy(rule.strategy, rule.comb_class, getattr(rule, 'children', ())):
            return f"{path}: strategy {rule.strategy!r} is not in (or produced by) the pack"
        return None
    return f"{path}: unknown rule form {type(rule).__name__}"


def _min_size(c):
    """Smallest size with an object, from the brute-force oracle (word classes)."""
    from vref import words as rw

    d = rw.desc_of(c)
    for n in range(0, 12):
        if rw.objects(d, n):
            return n
    return None


def independent_shifts(rule):
    """Shifts of a rule derived *without* asking the library: products of word classes from
    the true minimum sizes of the factors, unions 0, table strategies from their table row;
    reverse / equivalence forms by the documented arithmetic on the original's shifts.
    Returns None when no independent derivation is available (then the declared shifts are
    used and the case is counted)."""
    from comb_spec_searcher.strategies.constructor import CartesianProduct, DisjointUnion
    from comb_spec_searcher.strategies.rule import EquivalenceRule, ReverseRule, VerificationRule
    from vuniv import table as vtable
    from vuniv import words as vwords

    if isinstance(rule, VerificationRule):
        return ()
    if isinstance(rule, EquivalenceRule):
        orig = independent_shifts(rule.original_rule)
        return None if orig is None else (orig[rule.child_idx],)
    if isinstance(rule, ReverseRule):
        orig = independent_shifts(rule.original_rule)
        if orig is None:
            return None
        p = -orig[rule.idx]
        return (p,) + tuple(s + p for j, s in enumerate(orig) if j != rule.idx)
    if isinstance(rule.strategy, vtable.TableStrategy):
        return tuple(rule.strategy._row()[2])
    if isinstance(rule.comb_class, vwords.WC):
        cons = rule.constructor
        if isinstance(cons, DisjointUnion):
            return tuple(0 for _ in rule.children)
        if isinstance(cons, CartesianProduct):
            mins = [_min_size(c) for c in rule.children]
            if any(m is None for m in mins):
                return None
            return tuple(sum(mins) - m for m in mins)
    return None


def triples_of(rule):
    """(parent, children, shifts) triples contributed by a rule, read per rule form.  The
    shifts are derived independently of the library where possible (independent_shifts) and
    compared with what the rule declares; a declared shift that promises *more* than the
    independent one is reported by C10, here the independent value decides productivity."""
    from comb_spec_searcher.strategies.rule import EquivalencePathRule, EquivalenceRule

    cx = base.ctx()
    if isinstance(rule, EquivalencePathRule):
        out = []
        for link in rule.rules:
            out.extend(triples_of(link))
        return out
    if isinstance(rule, EquivalenceRule):
        # EquivalenceRule.shifts() returns the original rule's full tuple: read at child_idx
        full = tuple(rule.original_rule.shifts())
        declared = (full[rule.child_idx],)
        kids = (rule.children[0],)
    else:
        declared = tuple(rule.shifts())
        kids = tuple(rule.children)
    if len(declared) != len(kids):
        raise base.Violation("C02:shift-arity", f"{type(rule).__name__}: {len(declared)} shifts for {len(kids)} children")
    ind = independent_shifts(rule)
    if ind is None or len(ind) != len(kids):
        cx.count("spec.shifts_declared_only")
        ind = declared
    else:
        cx.count("spec.shifts_derived_independently")
        if tuple(ind) != tuple(declared):
            cx.count("spec.declared_shifts_differ_from_independent")
    return [(rule.comb_class, kids, tuple(ind))]


def spec_wellformed(spec, stream=None):
    cx = base.ctx()
    cx.count("spec.specs_examined")
    rd = spec.rules_dict
    if stream is not None:
        seen = {}
        for r in stream:
            if r.comb_class in seen:
                cx.violation("C02:two-rules-for-one-class",
                             f"the stream of rules has two rules for {r.comb_class!r}",
                             {"first": str(seen[r.comb_class].formal_step), "second": str(r.formal_step)})
            seen[r.comb_class] = r
    if spec.root not in rd:
        cx.violation("C02:root-without-rule", f"root {spec.root!r} has no rule", None)
    from comb_spec_searcher.strategies.rule import EquivalencePathRule
    from comb_spec_searcher.strategies.strategy import EmptyStrategy

    have = set(rd)
    hidden = set()
    for rule in list(rd.values()):
        if isinstance(rule, EquivalencePathRule):
            for link in rule.rules:
                hidden.add(link.comb_class)
    for cls, rule in list(rd.items()):
        if rule.comb_class != cls:
            cx.violation("C02:rule-filed-under-wrong-class", f"{cls!r} -> rule for {rule.comb_class!r}", None)
        for child in rule.children:
            cx.count("spec.children_checked")
            if child not in have and not _truly_empty(child):
                cx.violation("C02:not-closed", f"non-empty class {child!r} on a right-hand side has no rule",
                             {"parent": repr(cls), "step": str(rule.formal_step)})
        if isinstance(rule.strategy, EmptyStrategy) and not _truly_empty(cls):
            cx.violation("C02:empty-rule-for-non-empty-class", f"{cls!r} got the empty rule", None)
        err = _genuine(rule)
        if err:
            kind = err.split(":")[1].strip().split(" ")[0] if ":" in err else "rule"
            cx.violation("C02:rule-not-genuine", err, {"class": repr(cls)})
    # reachability: every rule should be reachable from the root (no stray left-hand sides)
    # -- not part of the statement, only counted
    if CONTEXT["judge_productivity"]:
        triples = []
        for rule in rd.values():
            triples.extend(triples_of(rule))
        ids = {}

        def lab(c):
            return ids.setdefault(c, len(ids))

        enc = [(lab(p), tuple(lab(c) for c in cs), sh) for p, cs, sh in triples]
        f = rlfp.lfp(enc, extra_labels=[lab(c) for c in rd])
        cx.count("spec.productivity_checked")
        bad = [c for c in rd if f[lab(c)] is not None]
        if bad:
            cx.violation("C02:not-productive",
                         f"{len(bad)} classes yield only finitely many terms, e.g. {bad[0]!r} -> {f[lab(bad[0])]}",
                         {"rules": [[lab(p), list(map(lab, cs)), list(sh)] for p, cs, sh in triples][:60]})
    else:
        cx.count("spec.productivity_not_judged")
    return True


def install():
    from comb_spec_searcher import specification

    if _INSTALLED:
        return
    S = specification.CombinatorialSpecification
    orig = S.__init__
    _INSTALLED["init"] = orig

    def __init__(self, root, rules, group_equiv=True):
        stream = list(rules)
        orig(self, root, iter(stream), group_equiv)
        LAST["spec"] = self
        if CONTEXT["enabled"]:
            spec_wellformed(self, stream)

    S.__init__ = __init__
