"""C14 monitor: differential check of the default and the memory-saving rule database.

Every `add` made on the primary database of a real search (RuleDB) is mirrored – from
the first one on, through the m_ruledb listener, which also sees the insertions made in
the searcher's constructor – into a shadow RuleDBForgetStrategy linked to a proxy that
exposes the same class DB, pack and start label and a no-op queue.  After *every*
insertion the two are compared:

  has_specification()          (called first on both: the verified sets are then in phase)
  set of stored keys
  is_verified(label)           for every label of the class DB
  contains(parent, children)   for stored keys (also with permuted children) and for
                               non-stored ones (wrong parent, sub-/supersets), against the
                               key set
  strategy look-up             the strategy handed back for the new key (and, at the end,
                               for every key) re-applied to the parent reproduces the key
"""
import itertools

from vmon import base, m_ruledb

_PAIRS = {}  # id(primary) -> Pair
_SHADOWS = set()
CONFIG = {"truth_empty": None, "enabled": False, "cap_labels": 120}


class _NoQueue:
    def set_stop_yielding(self, label):
        pass


class _Proxy:
    def __init__(self, searcher):
        self._s = searcher
        self.classqueue = _NoQueue()

    @property
    def classdb(self):
        return self._s.classdb

    @property
    def strategy_pack(self):
        return self._s.strategy_pack

    @property
    def start_label(self):
        return self._s.start_label


class Pair:
    def __init__(self, primary):
        from comb_spec_searcher.rule_db import RuleDBForgetStrategy

        self.primary = primary
        self.shadow = RuleDBForgetStrategy()
        _SHADOWS.add(id(self.shadow))
        self.shadow.link_searcher(_Proxy(primary.searcher))
        self.n = 0


def reset():
    _PAIRS.clear()
    _SHADOWS.clear()


def pair_of(primary):
    return _PAIRS.get(id(primary))


def _truly_empty(c):
    fn = CONFIG["truth_empty"]
    return fn(c) if fn is not None else bool(c.is_empty())


def _reapplied_key(strategy, classdb, parent_label):
    parent = classdb.get_class(parent_label)
    rule = strategy(parent)
    keep = [classdb.get_label(c) for c in rule.children
            if not (rule.possibly_empty and _truly_empty(c))]
    return (classdb.get_label(rule.comb_class), tuple(sorted(keep)))


def check_strategy(pair, key, wit):
    cx = base.ctx()
    classdb = pair.primary.classdb
    if _truly_empty(classdb.get_class(key[0])):
        cx.count("diff.strategy_lookup_empty_parent_not_judged")
        return
    for name, db in (("default", pair.primary), ("memory-saving", pair.shadow)):
        in_eqv = key in db.eqv_rule_to_strategy
        in_gen = key in db.rule_to_strategy
        if not (in_eqv or in_gen):
            cx.violation("C14:key-missing", f"{name} database does not hold {key}", wit)
        store = db.eqv_rule_to_strategy if in_eqv else db.rule_to_strategy
        try:
            strat = store[key]
        except Exception as e:  # noqa: BLE001
            cx.violation(f"C14:strategy-lookup-raises:{name}:{type(e).__name__}",
                         f"{name} database: look-up of the strategy for stored key {key} raised "
                         f"{type(e).__name__}: {str(e)[:200]}", wit)
        cx.count("diff.strategy_lookups_checked")
        got = _reapplied_key(strat, classdb, key[0])
        if got != key:
            cx.violation(f"C14:strategy-does-not-reproduce-rule:{name}",
                         f"{name} database hands back {strat!r} for {key}; re-applied it gives {got}", wit)
    # "reproduces that rule" includes its direction, and the two databases are to be
    # observationally identical: for a key held by the same store of both, the rule handed
    # back by the memory-saving database is one-way exactly when the default's is (a one-way
    # and a two-way rule can be recorded between the same two classes; which of them a store
    # keeps is the database's business, but it is the same business for both)
    parent = classdb.get_class(key[0])
    for store_name in ("rule_to_strategy", "eqv_rule_to_strategy"):
        sa, sb = getattr(pair.primary, store_name), getattr(pair.shadow, store_name)
        if len(key[1]) == 1 and key in sa and key in sb:
            # (single-child keys only: there the direction decides what the rule means to the
            # database - an equivalence edge or a one-way edge; with several children two rules
            # of the pack can share a key and either of them reproduces it)
            cx.count("diff.rule_directions_compared")
            try:
                ga, gb = sa[key], sb[key]
            except Exception as e:  # noqa: BLE001
                cx.violation(f"C14:strategy-lookup-raises:{store_name}:{type(e).__name__}",
                             f"look-up of the strategy for stored key {key} in {store_name} raised "
                             f"{type(e).__name__}: {str(e)[:200]}", wit)
            da, db_ = bool(ga(parent).is_two_way()), bool(gb(parent).is_two_way())
            if da != db_:
                cx.violation(f"C14:handed-back-direction-differs:{store_name}",
                             f"for the key {key} of {store_name} the default database hands back a "
                             f"{'two' if da else 'one'}-way rule ({sa[key]!r}), the memory-saving one a "
                             f"{'two' if db_ else 'one'}-way rule ({sb[key]!r})", wit)


def compare(pair, ev=None):
    cx = base.ctx()
    a, b = pair.primary, pair.shadow
    wit = {"insertions": pair.n, "last": None if ev is None else [ev["start"], list(ev["ends"])]}
    cx.count("diff.insertions_compared")
    m_ruledb._DEPTH[0] += 1  # the C05 postconditions are not the subject here
    try:
        ha, hb = a.has_specification(), b.has_specification()
        if ha != hb:
            cx.violation("C14:has-specification-differs", f"default {ha}, memory-saving {hb}", wit)
        ka, kb = set(a), set(b)
        if ka != kb:
            cx.violation("C14:key-sets-differ",
                         f"only default {sorted(ka - kb)[:4]}, only memory-saving {sorted(kb - ka)[:4]}", wit)
        nlab = len(a.classdb.label_to_info)
        if nlab <= CONFIG["cap_labels"]:
            for lab in range(nlab):
                va, vb = a.is_verified(lab), b.is_verified(lab)
                cx.count("diff.is_verified_compared")
                if va != vb:
                    cx.violation("C14:verified-differs", f"is_verified({lab}): default {va}, memory-saving {vb}", wit)
        # membership queries
        rng = base.ctx()._diff_rng
        probes = []
        keys = sorted(ka)
        for key in rng.sample(keys, min(4, len(keys))):
            start, ends = key
            probes.append((start, ends))
            probes.append((start, tuple(reversed(ends))))
            probes.append((start + 1, ends))
            if ends:
                probes.append((start, ends[:-1]))
            probes.append((start, ends + (rng.randrange(max(1, nlab)),)))
        for start, ends in probes:
            want = (start, tuple(sorted(ends))) in ka
            for name, db in (("default", a), ("memory-saving", b)):
                cx.count("diff.contains_checked")
                try:
                    got = db.contains(start, ends)
                except Exception as e:  # noqa: BLE001
                    cx.violation(f"C14:contains-raises:{type(e).__name__}",
                                 f"{name} database: contains({start}, {ends}) raised {type(e).__name__}: {e}", wit)
                if bool(got) != want:
                    cx.violation("C14:contains-wrong",
                                 f"{name} database: contains({start}, {ends}) = {got}, key set says {want}", wit)
    finally:
        m_ruledb._DEPTH[0] -= 1
    if ev is not None:
        key = (ev["start"], ev["key_ends"])
        if key in ka:
            check_strategy(pair, key, wit)


def on_add(db, shadow, ev):
    if not CONFIG["enabled"] or id(db) in _SHADOWS:
        return
    from comb_spec_searcher.rule_db import RuleDB

    if type(db) is not RuleDB:
        return
    pair = _PAIRS.get(id(db))
    if pair is None or pair.primary is not db:
        pair = Pair(db)
        _PAIRS[id(db)] = pair
    pair.n += 1
    pair.shadow.add(ev["start"], ev["ends"], ev["rule"])
    compare(pair, ev)


def install():
    m_ruledb.install()
    if on_add not in m_ruledb.LISTENERS:
        m_ruledb.LISTENERS.append(on_add)
