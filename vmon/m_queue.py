"""C16 monitor: recording wrappers on the real DefaultQueue and the checker R-queue over
the recorded stream.

Online (at every hand-out): the label was added and not told to stop; the packet is one
of the pack's (the whole inferral tuple with inferral=True, or one initial / expansion
strategy); it was not handed out before; per label the stages come in the order
inferral < initial < set 1 < set 2 < ...
Offline (at every exhaustion): every added, never-stopped label has received its inferral
packet (unless there are no inferral strategies or it was marked not-inferrable), every
initial strategy and every strategy of every expansion set.  After exhaustion the queue
keeps signalling exhaustion until something is added.
do_level: ends normally only if the level counter advanced, raises the documented error
only if it did not.
"""
from vmon import base

_SHADOW = {}
_INSTALLED = {}
_INSIDE = [0]  # >0 while inside a queue method (separates the queue's own stop marks)


class Shadow:
    def __init__(self, q, pack=None):
        self.q = q
        if pack is not None:
            self.inferral = tuple(pack.inferral_strats)
            self.initial = tuple(pack.initial_strats)
            self.sets = tuple(tuple(x) for x in pack.expansion_strats)
        else:  # queue met without having seen its construction (unpickled)
            self.inferral = tuple(q.inferral_strategies)
            self.initial = tuple(q.initial_strategies)
            self.sets = tuple(tuple(x) for x in q.expansion_strats)
            self.partial = True
        self.partial = pack is None
        self.added = set()
        self.stopped = set()  # external stop marks
        self.not_inferrable = set()
        self.handed = {}  # label -> set of keys
        self.stage = {}  # label -> last stage index
        self.exhausted = False
        self.events = 0
        self.log = []

    def stage_of(self, wp):
        """(stage index, key) of a work packet, or None if it is not one of the pack's."""
        strategies, inferral = tuple(wp.strategies), wp.inferral
        if inferral:
            if len(strategies) == len(self.inferral) and all(a is b for a, b in zip(strategies, self.inferral)):
                return 0, ("INF",)
            return None
        if len(strategies) != 1:
            return None
        s = strategies[0]
        for j, t in enumerate(self.initial):
            if t is s:
                return 1, ("INIT", j)
        for i, st in enumerate(self.sets):
            for j, t in enumerate(st):
                if t is s:
                    return 2 + i, ("SET", i, j)
        return None


def reset():
    _SHADOW.clear()


def shadow_of(q, pack=None):
    sh = _SHADOW.get(id(q))
    if sh is None or sh.q is not q:
        sh = Shadow(q, pack)
        _SHADOW[id(q)] = sh
    return sh


def _log(sh, *ev):
    sh.events += 1
    if len(sh.log) < 400:
        sh.log.append(list(map(_tok, ev)))


def _tok(x):
    if isinstance(x, (int, str, bool)) or x is None:
        return x
    return repr(x)[:60]


def check_handout(sh, wp):
    cx = base.ctx()
    cx.count("queue.handouts_checked")
    lab = wp.label
    if sh.partial:
        # history before the monitor was attached is unknown: only judge what can be judged
        sh.added.add(lab)
    if lab not in sh.added:
        cx.violation("C16:packet-for-label-never-added", f"packet for label {lab} which was never added",
                     {"log": sh.log[-30:]})
    if lab in sh.stopped:
        cx.violation("C16:packet-after-stop", f"packet {_tok(wp.strategies)} for label {lab} after it was told to stop",
                     {"log": sh.log[-30:]})
    st = sh.stage_of(wp)
    if st is None:
        cx.violation("C16:foreign-packet", f"packet {wp!r} is not one of the pack's work units", None)
    stage, key = st
    done = sh.handed.setdefault(lab, set())
    if key in done:
        cx.violation("C16:duplicate-packet", f"(label {lab}, {key}) handed out twice", {"log": sh.log[-30:]})
    done.add(key)
    if not sh.partial and stage < sh.stage.get(lab, 0):
        cx.violation("C16:out-of-order", f"label {lab}: stage {stage} after stage {sh.stage[lab]}",
                     {"log": sh.log[-30:]})
    sh.stage[lab] = max(stage, sh.stage.get(lab, 0))
    cx.see("queue.stage", stage if stage < 2 else "set")


def check_exhaustion(sh):
    cx = base.ctx()
    cx.count("queue.exhaustions_checked")
    if sh.partial:
        return
    for lab in sorted(sh.added - sh.stopped):
        done = sh.handed.get(lab, set())
        if sh.inferral and ("INF",) not in done and lab not in sh.not_inferrable:
            cx.violation("C16:missing-inferral", f"queue exhausted but label {lab} never got its inferral packet",
                         {"log": sh.log[-40:]})
        for j in range(len(sh.initial)):
            if ("INIT", j) not in done:
                cx.violation("C16:missing-initial", f"queue exhausted but label {lab} never got initial strategy {j}",
                             {"log": sh.log[-40:]})
        for i, st in enumerate(sh.sets):
            for j in range(len(st)):
                if ("SET", i, j) not in done:
                    cx.violation("C16:missing-expansion",
                                 f"queue exhausted but label {lab} never got strategy {j} of expansion set {i + 1}",
                                 {"log": sh.log[-40:]})
        cx.count("queue.labels_complete_at_exhaustion")


def install():
    from comb_spec_searcher import class_queue
    from comb_spec_searcher.exception import NoMoreClassesToExpandError

    if _INSTALLED:
        return
    Q = class_queue.DefaultQueue
    orig = {n: getattr(Q, n) for n in ("__init__", "add", "set_not_inferrable", "set_verified",
                                       "set_stop_yielding", "__next__", "do_level")}
    _INSTALLED.update(orig)

    def __init__(self, pack):
        orig["__init__"](self, pack)
        shadow_of(self, pack)

    def add(self, label):
        sh = shadow_of(self)
        if _INSIDE[0] == 0:
            sh.added.add(label)
            sh.exhausted = False
            _log(sh, "add", label)
            base.ctx().count("queue.adds")
        _INSIDE[0] += 1
        try:
            return orig["add"](self, label)
        finally:
            _INSIDE[0] -= 1

    def set_not_inferrable(self, label):
        sh = shadow_of(self)
        if _INSIDE[0] == 0:
            if ("INF",) not in sh.handed.get(label, ()):
                sh.not_inferrable.add(label)
            _log(sh, "not_inferrable", label)
        _INSIDE[0] += 1
        try:
            return orig["set_not_inferrable"](self, label)
        finally:
            _INSIDE[0] -= 1

    def set_stop_yielding(self, label):
        sh = shadow_of(self)
        if _INSIDE[0] == 0:
            sh.stopped.add(label)
            _log(sh, "stop", label)
            base.ctx().count("queue.external_stops")
        _INSIDE[0] += 1
        try:
            return orig["set_stop_yielding"](self, label)
        finally:
            _INSIDE[0] -= 1

    def set_verified(self, label):
        sh = shadow_of(self)
        if _INSIDE[0] == 0:
            sh.stopped.add(label)
            _log(sh, "verified", label)
        _INSIDE[0] += 1
        try:
            return orig["set_verified"](self, label)
        finally:
            _INSIDE[0] -= 1

    def __next__(self):
        sh = shadow_of(self)
        outer = _INSIDE[0] == 0
        was_exhausted = sh.exhausted
        _INSIDE[0] += 1
        try:
            wp = orig["__next__"](self)
        except StopIteration:
            _INSIDE[0] -= 1
            if outer:
                _log(sh, "exhausted")
                check_exhaustion(sh)
                sh.exhausted = True
            raise
        except BaseException:
            _INSIDE[0] -= 1
            raise
        _INSIDE[0] -= 1
        if outer:
            _log(sh, "next", wp.label, wp.strategies if not wp.inferral else "INF")
            if was_exhausted:
                base.ctx().violation("C16:work-after-exhaustion",
                                     f"queue signalled exhaustion, nothing was added, yet it handed out {wp!r}",
                                     {"log": sh.log[-30:]})
            check_handout(sh, wp)
        return wp

    def do_level(self):
        sh = shadow_of(self)
        before = self.levels_completed
        _log(sh, "do_level", before)
        gen = orig["do_level"](self)
        try:
            for wp in gen:
                yield wp
        except NoMoreClassesToExpandError:
            base.ctx().count("queue.do_level_ran_dry")
            if self.levels_completed != before:
                base.ctx().violation("C16:do-level-error-after-level-change",
                                     "NoMoreClassesToExpandError although the level counter advanced", None)
            raise
        base.ctx().count("queue.do_level_completed")
        if self.levels_completed == before:
            base.ctx().violation("C16:do-level-ended-without-level-change",
                                 "do_level ended normally but the level counter did not advance "
                                 f"(still {before})", {"log": sh.log[-30:]})

    Q.__init__ = __init__
    Q.add = add
    Q.set_not_inferrable = set_not_inferrable
    Q.set_stop_yielding = set_stop_yielding
    Q.set_verified = set_verified
    Q.__next__ = __next__
    Q.do_level = do_level
