"""C11 monitor: postconditions on ForestRuleExtractor.

extraction_minimal (after __init__): with M the multiset of keys inserted into the
database's table (shadow kept by vmon.m_table), `needed_rules`
  - is a sub-multiset of M,
  - is productive for the root (R-lfp),
  - has one key per parent and a key for every child it mentions,
  - stops being productive when any single key is removed,
  - contains a REVERSE-bucket key only if M without the REVERSE bucket is not productive.
found_rule_has_key (after _find_rule): the rule handed back has the requested key and is
what a pack strategy (or the empty strategy), or a reverse of it, gives on its class.
"""
from vmon import base, m_table
from vref import lfp as rlfp

_INSTALLED = {}


def _t(k):
    return (k.parent, tuple(k.children), tuple(k.shifts))


def check_extraction(extractor, inserted, root):
    cx = base.ctx()
    cx.count("forest.extractions_checked")
    needed = list(extractor.needed_rules)
    wit = {"inserted": [[k.parent, list(k.children), list(k.shifts), k.bucket.name] for k in inserted][:120],
           "needed": [[k.parent, list(k.children), list(k.shifts), k.bucket.name] for k in needed],
           "root": root}
    pool = list(inserted)
    for k in needed:
        if k in pool:
            pool.remove(k)
        else:
            cx.violation("C11:extracted-key-never-inserted", f"needed key {tuple(k)} was never inserted", wit)
    triples = [_t(k) for k in needed]
    if not rlfp.productive_for(triples, root):
        cx.violation("C11:extraction-not-productive", "the extracted keys are not productive for the root", wit)
    parents = [k.parent for k in needed]
    if len(set(parents)) != len(parents):
        cx.violation("C11:two-keys-for-one-class", f"parents {sorted(parents)}", wit)
    for k in needed:
        for c in k.children:
            if c not in parents:
                cx.violation("C11:child-without-key", f"child {c} of {tuple(k)} has no extracted key", wit)
    for i in range(len(triples)):
        cx.count("forest.single_removals_checked")
        if rlfp.productive_for(triples[:i] + triples[i + 1:], root):
            cx.violation("C11:extraction-not-minimal",
                         f"still productive without {tuple(needed[i])}", wit)
    rev = [k for k in needed if k.bucket.name == "REVERSE"]
    if rev:
        cx.count("forest.extractions_with_reverse_key")
        without = [_t(k) for k in inserted if k.bucket.name != "REVERSE"]
        if rlfp.productive_for(without, root):
            cx.violation("C11:reverse-key-used-needlessly",
                         f"{len(rev)} REVERSE keys extracted although the other buckets are productive", wit)
    for b in {k.bucket.name for k in needed}:
        cx.see("forest.bucket_in_extraction", b)
    return True


def check_returned_rules(db, rules):
    """C11 on what RuleDBForest.get_specification_rules returns: every rule is a recorded forward
    rule or the reverse of one; one rule per class; closed; productive; and a reverse rule (told by
    its type, not by a bucket label) only if the forward rules recorded so far are not productive
    for the root on their own."""
    from comb_spec_searcher.strategies.rule import EquivalenceRule, ReverseRule
    from vmon import m_ruledb

    sh = m_ruledb.shadow_of(db)
    if sh.adopted is False or not sh.events:
        return
    cx = base.ctx()
    cx.count("forest.returned_rule_sets_checked")
    lab = db.classdb.get_label
    forward = set()
    for ev in sh.events:
        r = ev["rule"]
        forward.add((ev["start"], tuple(ev["ends"]), tuple(r.shifts())))
    root = db.root_label
    triples, parents, wit = [], [], {"root": root}
    reverse_used = 0
    inserted = {_t(k) for k in m_table.shadow_of_keys(db.table_method)}
    known_history = m_table.history_known(db.table_method)
    empties = set()
    # rules inserted as they are, derived forms included (expanding a verified class inserts the
    # rules of a specification - reverse and equivalence forms among them - into a fresh database)
    as_inserted = {_t(ev["rule"].forest_key(lab, db.classdb.is_empty)) for ev in sh.events}
    for r in rules:
        key = r.forest_key(lab, db.classdb.is_empty)
        t = _t(key)
        triples.append(t)
        parents.append(t[0])
        for c in r.children:
            if db.classdb.is_empty(c, lab(c)):
                empties.add(lab(c))  # empty classes get their (nullary) rule lazily, in the specification
        if isinstance(r, ReverseRule) and not r.is_equivalence() and t not in as_inserted:
            reverse_used += 1
        src = r.original_rule if isinstance(r, EquivalenceRule) else r  # the form whose key was inserted
        ti = _t(src.forest_key(lab, db.classdb.is_empty))
        if known_history and ti not in inserted and t not in inserted:
            cx.violation("C11:returned-rule-never-inserted", f"{type(r).__name__} with key {ti} was never inserted", wit)
    if root not in parents and db.classdb.is_empty(db.classdb.get_class(root), root):
        empties.add(root)  # an empty start class: no rule is handed back, the specification adds it
    triples += [(e, (), ()) for e in empties if e not in parents]
    if len(set(parents)) != len(parents):
        cx.violation("C11:returned-two-rules-for-one-class", f"parents {sorted(parents)}", wit)
    if not rlfp.productive_for(triples, root):
        cx.violation("C11:returned-rules-not-productive", f"{triples}", wit)
    if reverse_used:
        cx.count("forest.returned_rule_sets_with_reverse_rule")
        if rlfp.productive_for(list(forward), root):
            cx.violation("C11:reverse-rule-returned-needlessly",
                         f"{reverse_used} reverse rules handed back although the forward rules recorded so far are "
                         f"productive for the root", wit)


def install():
    from comb_spec_searcher.rule_db import forest

    if _INSTALLED:
        return
    m_table.install()
    E = forest.ForestRuleExtractor
    orig_init = E.__init__
    orig_find = E._find_rule
    _INSTALLED.update(init=orig_init, find=orig_find)

    def __init__(self, root_label, ruledb, classdb, pack):
        inserted = list(m_table.shadow_of_keys(ruledb.table_method))
        m_table.CONFIG["suspend"] += 1
        try:
            orig_init(self, root_label, ruledb, classdb, pack)
        finally:
            m_table.CONFIG["suspend"] -= 1
        check_extraction(self, inserted, root_label)

    def _find_rule(self, rule_key):
        rule = orig_find(self, rule_key)
        cx = base.ctx()
        cx.count("forest.found_rules_checked")
        got = rule.forest_key(self.classdb.get_label, self.classdb.is_empty)
        if got != rule_key:
            cx.violation("C11:found-rule-has-other-key", f"asked {tuple(rule_key)}, rule has {tuple(got)}", None)
        # genuineness: the rule (or the rule it reverses) is what its strategy gives
        orig = getattr(rule, "original_rule", rule)
        again = orig.strategy(orig.comb_class)
        if tuple(again.children) != tuple(orig.children):
            cx.violation("C11:found-rule-not-genuine",
                         f"strategy {orig.strategy!r} on {orig.comb_class!r} gives {again.children}, rule has {orig.children}",
                         None)
        return rule

    E.__init__ = __init__
    E._find_rule = _find_rule

    # the rule set the forest database hands back, judged as rule *objects* against the forward
    # rules recorded at `add` (independent of bucket labels and of how the extractor got them)
    from vmon import m_ruledb

    m_ruledb.install()
    D = forest.RuleDBForest
    orig_get = D.get_specification_rules

    def get_specification_rules(self, **kwargs):
        rules = list(orig_get(self, **kwargs))
        check_returned_rules(self, rules)
        return iter(rules)

    D.get_specification_rules = get_specification_rules
    _INSTALLED["get"] = orig_get
