"""C11 monitor: postconditions on ForestRuleExtractor.

extraction_minimal (after __init__): with M the multiset of keys inserted into the
database's table (shadow kept by vmon.m_table), `needed_rules`
  - is a sub-multiset of M,
  - is productive for the root (R-lfp),
  - has one key per parent and a key for every child it mentions,
  - stops being productive when any single key is removed,
  - contains a REVERSE-bucket key only if M without the REVERSE bucket is not productive.
found_rule_has_key (after _find_rule): the rule handed back has the requested key and is
what a pack strategy (or the empty strategy), or a reverse of it, gives on its class.
"""
from vmon import base, m_table
from vref import lfp as rlfp

_INSTALLED = {}


def _t(k):
    return (k.parent, tuple(k.children), tuple(k.shifts))


def check_extraction(extractor, inserted, root):
    cx = base.ctx()
    cx.count("forest.extractions_checked")
    needed = list(extractor.needed_rules)
    wit = {"inserted": [[k.parent, list(k.children), list(k.shifts), k.bucket.name] for k in inserted][:120],
           "needed": [[k.parent, list(k.children), list(k.shifts), k.bucket.name] for k in needed],
           "root": root}
    pool = list(inserted)
    for k in needed:
        if k in pool:
            pool.remove(k)
        else:
            cx.violation("C11:extracted-key-never-inserted", f"needed key {tuple(k)} was never inserted", wit)
    triples = [_t(k) for k in needed]
    if not rlfp.productive_for(triples, root):
        cx.violation("C11:extraction-not-productive", "the extracted keys are not productive for the root", wit)
    parents = [k.parent for k in needed]
    if len(set(parents)) != len(parents):
        cx.violation("C11:two-keys-for-one-class", f"parents {sorted(parents)}", wit)
    for k in needed:
        for c in k.children:
            if c not in parents:
                cx.violation("C11:child-without-key", f"child {c} of {tuple(k)} has no extracted key", wit)
    for i in range(len(triples)):
        cx.count("forest.single_removals_checked")
        if rlfp.productive_for(triples[:i] + triples[i + 1:], root):
            cx.violation("C11:extraction-not-minimal",
                         f"still productive without {tuple(needed[i])}", wit)
    rev = [k for k in needed if k.bucket.name == "REVERSE"]
    if rev:
        cx.count("forest.extractions_with_reverse_key")
        without = [_t(k) for k in inserted if k.bucket.name != "REVERSE"]
        if rlfp.productive_for(without, root):
            cx.violation("C11:reverse-key-used-needlessly",
                         f"{len(rev)} REVERSE keys extracted although the other buckets are productive", wit)
    for b in {k.bucket.name for k in needed}:
        cx.see("forest.bucket_in_extraction", b)
    return True


def install():
    from comb_spec_searcher.rule_db import forest

    if _INSTALLED:
        return
    m_table.install()
    E = forest.ForestRuleExtractor
    orig_init = E.__init__
    orig_find = E._find_rule
    _INSTALLED.update(init=orig_init, find=orig_find)

    def __init__(self, root_label, ruledb, classdb, pack):
        inserted = list(m_table.shadow_of_keys(ruledb.table_method))
        m_table.CONFIG["suspend"] += 1
        try:
            orig_init(self, root_label, ruledb, classdb, pack)
        finally:
            m_table.CONFIG["suspend"] -= 1
        check_extraction(self, inserted, root_label)

    def _find_rule(self, rule_key):
        rule = orig_find(self, rule_key)
        cx = base.ctx()
        cx.count("forest.found_rules_checked")
        got = rule.forest_key(self.classdb.get_label, self.classdb.is_empty)
        if got != rule_key:
            cx.violation("C11:found-rule-has-other-key", f"asked {tuple(rule_key)}, rule has {tuple(got)}", None)
        # genuineness: the rule (or the rule it reverses) is what its strategy gives
        orig = getattr(rule, "original_rule", rule)
        again = orig.strategy(orig.comb_class)
        if tuple(again.children) != tuple(orig.children):
            cx.violation("C11:found-rule-not-genuine",
                         f"strategy {orig.strategy!r} on {orig.comb_class!r} gives {again.children}, rule has {orig.children}",
                         None)
        return rule

    E.__init__ = __init__
    E._find_rule = _find_rule
