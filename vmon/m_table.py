"""C03 monitors: contracts on the real TableMethod / Function.

* ensure on TableMethod.add_rule_key: after every insertion the reported function equals
  the least fixed point (vref.lfp) of the multiset inserted so far (shadow kept here, not
  read from the object), and no value went down (snapshot of the previous function).
* invariant on Function: the value histogram and infinity counter agree with the values.
"""
from vmon import base
from vref import lfp as rlfp

base.add_deps_path()
import icontract  # noqa: E402

_SHADOW = {}  # id(table) -> (table, [ (parent, children, shifts) ])
_INSTALLED = {}
CONFIG = {"cap_rules": 60, "every": 10, "function_invariant": False, "suspend": 0}


_BORN = {}  # id(table) -> table: tables constructed (TableMethod.__init__) under the monitor


def reset():
    _SHADOW.clear()
    _KEYS.clear()
    _BORN.clear()


def history_known(table):
    """The monitor saw this table being constructed, hence every insertion since.  Tables
    that come out of pickle / copy (no __init__) have an unknown history.  Deliberately not
    derived from the table's own fields: a table that fails to store a rule must not look
    like one with an unknown history."""
    return _BORN.get(id(table)) is table


def shadow_of(table):
    ent = _SHADOW.get(id(table))
    if ent is None or ent[0] is not table:
        ent = (table, [])
        _SHADOW[id(table)] = ent
    return ent[1]


_KEYS = {}  # id(table) -> (table, [ForestRuleKey])


def shadow_of_keys(table):
    ent = _KEYS.get(id(table))
    if ent is None or ent[0] is not table:
        ent = (table, [])
        _KEYS[id(table)] = ent
    return ent[1]


def reported(table, labels):
    """What the table reports through its public surface."""
    fn = table.function  # dict of non-zero values, None = infinity
    out = {}
    for lab in labels:
        v = fn.get(lab, 0)
        out[lab] = v
        if table.is_pumping(lab) != (v is None):
            base.ctx().violation(
                "C03:is_pumping-disagrees-with-function",
                f"is_pumping({lab})={table.is_pumping(lab)} but function[{lab}]={v}",
                {"label": lab},
            )
    return out


def prev_function(self):
    if CONFIG["suspend"]:
        return None
    return dict(self.function)


def fixed_point_and_monotone(self, rule_key, OLD):
    cx = base.ctx()
    if CONFIG["suspend"]:
        return True  # scratch tables built by the extractor while minimising
    if not history_known(self):
        # a table met with content (unpickled): its history is unknown, nothing is judged
        cx.count("table.unknown_history_not_judged")
        return True
    shadow_of_keys(self).append(rule_key)
    rules = shadow_of(self)
    rules.append((rule_key.parent, tuple(rule_key.children), tuple(rule_key.shifts)))
    n = len(rules)
    cx.count("table.insertions")
    # monotone: a value never decreases, infinity never becomes finite
    now = self.function
    for lab, old in OLD.prev.items():
        new = now.get(lab, 0)
        if old is None and new is not None or (
            old is not None and new is not None and new < old
        ):
            cx.violation(
                "C03:value-decreased",
                f"function[{lab}] went from {old} to {new} when inserting {tuple(rule_key)}",
                {"inserted": [list(map(list_or, r)) for r in rules]},
                raise_=False,
            )
            return False
    cx.count("table.monotone_checked")
    if n > CONFIG["cap_rules"] and n % CONFIG["every"]:
        cx.count("table.lfp_skipped_by_cap")
        return True
    ref = rlfp.lfp(rules)
    if n <= CONFIG["cap_rules"]:
        capped, cap = rlfp.lfp_capped(rules)
        if not rlfp.consistent(ref, capped, cap):
            cx.count("table.oracle_inconsistent")
            cx.note("R-lfp and capped iteration disagree: oracle inconclusive")
            return True
    got = reported(self, ref.keys())
    cx.count("table.lfp_compared")
    if any(v is None for v in ref.values()):
        cx.count("table.lfp_compared_with_infinite")
    if any(v not in (None, 0) for v in ref.values()):
        cx.count("table.lfp_compared_with_finite_nonzero")
    if got != ref:
        diff = {str(k): [got[k], ref[k]] for k in ref if got[k] != ref[k]}
        cx.violation(
            "C03:not-least-fixed-point",
            f"after {n} insertions table reports {diff} (reported, least fixed point)",
            {"inserted": [list(map(list_or, r)) for r in rules], "diff": diff},
            raise_=False,
        )
        return False
    return True


def list_or(x):
    return list(x) if isinstance(x, tuple) else x


def contract_error(self, rule_key):
    return base.Violation("C03:add_rule_key-postcondition", f"after inserting {tuple(rule_key)}")


def histogram_consistent(self):
    cx = base.ctx()
    cx.count("function.invariant_evaluated")
    values = self._value
    hist = {}
    inf = 0
    for v in values:
        if v is None:
            inf += 1
        else:
            hist[v] = hist.get(v, 0) + 1
    claimed = list(self._preimage_count)
    ok = inf == self._infinity_count
    for v, c in enumerate(claimed):
        if hist.get(v, 0) != c:
            ok = False
    if any(v >= len(claimed) for v in hist):
        ok = False
    if not ok:
        cx.violation(
            "C03:function-histogram-inconsistent",
            f"values={values} preimage_count={claimed} infinity_count={self._infinity_count}",
            None,
            raise_=False,
        )
    return ok


def histogram_error(self):
    return base.Violation("C03:function-histogram-inconsistent", "Function invariant")


def install(function_invariant=False):
    """Attach the contracts (idempotent).  Must run before TableMethod objects are used."""
    from comb_spec_searcher.rule_db import forest

    if "table" not in _INSTALLED:
        orig = forest.TableMethod.add_rule_key
        wrapped = icontract.snapshot(prev_function, name="prev")(
            icontract.ensure(fixed_point_and_monotone, error=contract_error)(orig)
        )
        forest.TableMethod.add_rule_key = wrapped
        _INSTALLED["table"] = orig
        orig_init = forest.TableMethod.__init__

        def __init__(self, *a, **k):
            orig_init(self, *a, **k)
            _BORN[id(self)] = self

        forest.TableMethod.__init__ = __init__
        _INSTALLED["table_init"] = orig_init
    if function_invariant and "function" not in _INSTALLED:
        _INSTALLED["function"] = forest.Function
        forest.Function = icontract.invariant(histogram_consistent, error=histogram_error)(
            forest.Function
        )
