"""C12 monitors (icontract postconditions):

* Bijection.construct / Bijection.from_dict: a returned bijection maps, for every size
  n <= N, the objects of the first root one-to-one onto the objects of the second root
  (brute force), preserves size, and inverse_map undoes map in both directions.
* Isomorphism.check(a, b) == Isomorphism.check(b, a)  (evaluated by calling the real
  function with swapped arguments under a re-entrancy guard).
"""
from vmon import base
from vref import words as rw

base.add_deps_path()
import icontract  # noqa: E402

_INSTALLED = {}
_DEPTH = [0]
CONFIG = {"N": 6}


def _word_roots(a, b):
    from vuniv import words

    return isinstance(a.root, words.WC) and isinstance(b.root, words.WC)


def check_bijection(bij, a, b, where):
    """Returns None or (mechanism, message)."""
    from vuniv.words import W

    cx = base.ctx()
    da, db = rw.desc_of(a.root), rw.desc_of(b.root)
    for n in range(CONFIG["N"] + 1):
        dom, cod = rw.objects(da, n), rw.objects(db, n)
        images = []
        for w in dom:
            img = bij.map(W(w))
            cx.count("bij.points_mapped")
            if len(img) != n:
                return ("C12:size-not-preserved", f"{where}: map({w!r}) = {img!r} has another size")
            back = bij.inverse_map(img)
            if str(back) != w:
                return ("C12:inverse-does-not-undo-map", f"{where}: inverse_map(map({w!r})) = {back!r}")
            images.append(str(img))
        if len(set(images)) != len(images):
            return ("C12:map-not-injective", f"{where}: size {n}: images {sorted(images)}")
        if sorted(images) != sorted(cod):
            return ("C12:map-not-onto", f"{where}: size {n}: images {sorted(images)}, codomain {sorted(cod)}")
        for v in cod:
            pre = bij.inverse_map(W(v))
            if str(bij.map(pre)) != v:
                return ("C12:map-does-not-undo-inverse", f"{where}: map(inverse_map({v!r})) = {bij.map(pre)!r}")
        if len(dom) >= 3:
            cx.count("bij.sizes_with_3plus_objects")
    return None


def is_true_bijection(spec, other, result):
    cx = base.ctx()
    if result is None:
        cx.count("bij.construct_returned_none")
        return True
    if not _word_roots(spec, other):
        return True
    cx.count("bij.constructed_checked")
    try:
        err = check_bijection(result, spec, other, "construct")
    except NotImplementedError:
        cx.count("bij.maps_not_implemented_not_judged")
        return True
    if err:
        cx.violation(err[0], err[1], {"root1": repr(spec.root), "root2": repr(other.root)}, raise_=False)
        return False
    return True


def _err_construct(spec, other):
    return base.Violation("C12:contract", "Bijection.construct postcondition")


def loaded_is_true_bijection(d, result):
    cx = base.ctx()
    a, b = result.domain, result.codomain
    if not _word_roots(a, b):
        return True
    cx.count("bij.loaded_checked")
    try:
        err = check_bijection(result, a, b, "from_dict")
    except NotImplementedError:
        return True
    if err:
        cx.violation(err[0], err[1], None, raise_=False)
        return False
    return True


def _err_load(d):
    return base.Violation("C12:contract", "Bijection.from_dict postcondition")


def symmetric(spec1, spec2, result):
    if _DEPTH[0] > 0:
        return True
    from comb_spec_searcher.isomorphism import Isomorphism

    cx = base.ctx()
    _DEPTH[0] += 1
    try:
        other = Isomorphism.check(spec2, spec1)
    finally:
        _DEPTH[0] -= 1
    cx.count("iso.symmetry_checked")
    cx.count("iso.answer_true" if result else "iso.answer_false")
    if bool(other) != bool(result):
        cx.violation("C12:isomorphism-check-not-symmetric",
                     f"check(a, b) = {result} but check(b, a) = {other}",
                     {"root1": repr(spec1.root), "root2": repr(spec2.root)}, raise_=False)
        return False
    return True


def _err_sym(spec1, spec2):
    return base.Violation("C12:contract", "Isomorphism.check symmetry")


def install():
    from comb_spec_searcher import isomorphism

    if _INSTALLED:
        return
    B = isomorphism.Bijection
    I = isomorphism.Isomorphism
    orig_construct = B.__dict__["construct"].__func__
    orig_from = B.__dict__["from_dict"].__func__
    orig_check = I.__dict__["check"].__func__

    def construct(spec, other):
        return orig_construct(B, spec, other)

    def from_dict(d):
        return orig_from(B, d)

    def check(spec1, spec2):
        return orig_check(I, spec1, spec2)

    B.construct = staticmethod(icontract.ensure(is_true_bijection, error=_err_construct)(construct))
    B.from_dict = staticmethod(icontract.ensure(loaded_is_true_bijection, error=_err_load)(from_dict))
    I.check = staticmethod(icontract.ensure(symmetric, error=_err_sym)(check))
    _INSTALLED["done"] = True
