"""C07 monitors.

* ensure on CombinatorialSpecification.get_objects: the objects handed back for size n
  are, parameter tuple by parameter tuple, exactly the objects of the root class (R-words),
  each once.
* ensure on forward_map of the four rule forms (plain Rule, EquivalenceRule, ReverseRule,
  EquivalencePathRule): every part lies in the corresponding child class and the real
  backward_map applied to the parts returns the object.
Only classes of the word universe are judged (others are counted as skipped).
"""
from collections import Counter

from vmon import base
from vref import words as rw

base.add_deps_path()
import icontract  # noqa: E402

_INSTALLED = {}
_DEPTH = [0]


def _is_word_class(c):
    from vuniv import words

    return isinstance(c, words.WC)


def objects_exact(self, n, result):
    cx = base.ctx()
    if not _is_word_class(self.root):
        cx.count("objects.non_word_root_skipped")
        return True
    desc = rw.desc_of(self.root)
    want = {p: Counter(ws) for p, ws in rw.objects_by_params(desc, n).items()}
    got = {p: Counter(map(str, ws)) for p, ws in result.items() if ws}
    cx.count("objects.sizes_compared")
    cx.count("objects.objects_compared", sum(sum(c.values()) for c in want.values()))
    if got != want:
        dup = any(v > 1 for c in got.values() for v in c.values())
        kind = "duplicates" if dup else "wrong-set"
        cx.violation(f"C07:generated-objects-{kind}",
                     f"size {n}: generated {dict((k, dict(v)) for k, v in got.items())}, "
                     f"truth {dict((k, dict(v)) for k, v in want.items())}",
                     {"root": repr(self.root), "n": n}, raise_=False)
        return False
    return True


def _err_objects(self, n):
    return base.Violation("C07:contract", f"get_objects({n}) postcondition")


def parts_in_children(self, obj, result):
    if _DEPTH[0] > 0:
        return True
    cx = base.ctx()
    if not _is_word_class(self.comb_class):
        return True
    cx.count("maps.forward_maps_checked")
    cx.see("maps.rule_form", type(self).__name__)
    kids = self.children
    wit = {"form": type(self).__name__, "class": repr(self.comb_class), "strategy": repr(self.strategy),
           "object": str(obj), "parts": [None if p is None else str(p) for p in result]}
    if len(result) != len(kids):
        cx.violation("C07:wrong-number-of-parts", f"{len(result)} parts for {len(kids)} children", wit, raise_=False)
        return False
    for part, kid in zip(result, kids):
        if part is None:
            continue
        d = rw.desc_of(kid)
        if str(part) not in rw.objects(d, len(part)):
            cx.violation("C07:part-not-in-child", f"part {part!r} of {obj!r} is not an object of child {kid!r}",
                         wit, raise_=False)
            return False
    _DEPTH[0] += 1
    try:
        back = list(self.backward_map(tuple(result)))
    finally:
        _DEPTH[0] -= 1
    cx.count("maps.round_trips_checked")
    if [str(b) for b in back] != [str(obj)]:
        cx.violation("C07:round-trip-fails",
                     f"backward_map(forward_map({obj!r})) = {back} for {type(self).__name__} of {self.strategy!r}",
                     wit, raise_=False)
        return False
    return True


def _err_map(self, obj):
    return base.Violation("C07:contract", "forward_map postcondition")


def _wrap_forward(cls):
    orig = cls.__dict__["forward_map"]

    def body(self, obj):
        return orig(self, obj)

    body.__name__ = "forward_map"
    cls.forward_map = icontract.ensure(parts_in_children, error=_err_map)(body)


def install():
    from comb_spec_searcher import specification
    from comb_spec_searcher.strategies import rule as rule_mod

    if _INSTALLED:
        return
    S = specification.CombinatorialSpecification
    orig = S.get_objects

    def body(self, n):
        return orig(self, n)

    body.__name__ = "get_objects"
    S.get_objects = icontract.ensure(objects_exact, error=_err_objects)(body)
    for cls in (rule_mod.Rule, rule_mod.EquivalenceRule, rule_mod.ReverseRule, rule_mod.EquivalencePathRule):
        _wrap_forward(cls)
    _INSTALLED["done"] = True
