"""Virtual time.  The search loop, the proof-tree minimiser and the statistics all read
`time.time()` through a module attribute `time`; the harness replaces that attribute in
the modules that *schedule* by it, so that time-slicing becomes a controllable input.

    comb_spec_searcher.comb_spec_searcher.time  -> VirtualClock   (slices, max time)
    comb_spec_searcher.tree_searcher.time       -> BudgetClock    (number of random trees)

utils.time / class_db.time / rule_db.forest.time only feed statistics and stay real.
"""


class VirtualClock:
    """time() returns the current virtual time; it only advances when told to
    (advance) or, if `auto` > 0, by `auto` per reading."""

    def __init__(self, auto=0.0):
        self.now = 1000.0
        self.auto = auto
        self.reads = 0

    def time(self):
        self.reads += 1
        t = self.now
        self.now += self.auto
        return t

    def advance(self, dt):
        self.now += dt

    # anything else the module might use from `time`
    def sleep(self, _):
        return None


class BudgetClock:
    """For `while time.time() - start < limit` loops: lets the loop body run `k` more
    times per invocation (when limit > 0), then jumps far ahead."""

    def __init__(self, k=2):
        self.k = k
        self.base = 0.0
        self.calls_in_cycle = 0

    def time(self):
        self.calls_in_cycle += 1
        if self.calls_in_cycle >= self.k + 2:
            self.base += 1e9
            self.calls_in_cycle = 0
            return self.base
        return self.base


_SAVED = {}


def install(clock=None, tree_clock=None):
    import comb_spec_searcher.comb_spec_searcher as css_mod
    import comb_spec_searcher.tree_searcher as ts_mod

    if "css" not in _SAVED:
        _SAVED["css"] = css_mod.time
        _SAVED["ts"] = ts_mod.time
    clock = clock or VirtualClock()
    tree_clock = tree_clock or BudgetClock()
    css_mod.time = clock
    ts_mod.time = tree_clock
    return clock, tree_clock


def uninstall():
    import comb_spec_searcher.comb_spec_searcher as css_mod
    import comb_spec_searcher.tree_searcher as ts_mod

    if "css" in _SAVED:
        css_mod.time = _SAVED["css"]
        ts_mod.time = _SAVED["ts"]


class Schedule:
    """Drives one searcher under a VirtualClock.

    mode 'drain'     – frozen clock: one expansion phase until the queue is exhausted.
    mode 'sliced'    – one tick per work packet; the specification search after slice i
                       'costs' costs[i] ticks, hence the next slice lasts
                       (100/perc)*costs[i] packets.
    mode 'interrupt' – as sliced with single-packet slices and max_expansion_time chosen
                       so that the search is interrupted after exactly k packets.
    The per-packet tick is installed by wrapping searcher._expand on the *instance*'s
    class via vmon.m_search (recording wrapper), which calls `on_packet`.
    """

    def __init__(self, clock, mode="drain", costs=(), perc=1):
        self.clock = clock
        self.mode = mode
        self.costs = list(costs)
        self.perc = perc
        self.i = 0
        self.packets = 0

    def on_packet(self):
        self.packets += 1
        if self.mode != "drain":
            self.clock.advance(1.0)

    def on_spec_search(self):
        if self.mode == "drain":
            return
        if self.mode == "interrupt":
            cost = 0.001 * self.perc / 100.0  # next slice: a single packet
        else:
            cost = self.costs[self.i % len(self.costs)] if self.costs else 0.01
            cost = cost * self.perc / 100.0
            self.i += 1
        self.clock.advance(cost)
