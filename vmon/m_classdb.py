"""C15 monitors: contracts on the real ClassDB against a sequential model (R-classdb).

Model = a list of classes in order of first appearance and a dict class -> label.  The
model is fed at the client boundary (the arguments and results of get_label / get_class /
add), never read from the database's own containers.

* invariant  lists_parallel: the three containers have one length, label_dict is a
  bijection onto range(len) and agrees with the class list.
* ensure on get_label / get_class / __contains__ / is_empty.
"""
from vmon import base

base.add_deps_path()
import icontract  # noqa: E402

_MODELS = {}
_INSTALLED = {}
_DEPTH = [0]
CONFIG = {"invariant_cap": 400}


class Model:
    def __init__(self, db):
        self.db = db
        self.classes = []
        self.index = {}
        self.adopted = False
        self.told = {}  # label -> emptiness a client set through set_empty

    def label_of(self, c, create=True):
        if c not in self.index:
            if not create:
                return None
            self.index[c] = len(self.classes)
            self.classes.append(c)
        return self.index[c]


def reset():
    _MODELS.clear()


def model_of(db):
    m = _MODELS.get(id(db))
    if m is None or m.db is not db:
        m = Model(db)
        _MODELS[id(db)] = m
        # a database met for the first time with content (unpickled, or created before the
        # monitor was attached): adopt what it holds as the starting point of the model
        n = len(db.empty_list)
        if n:
            _DEPTH[0] += 1
            try:
                for lab in range(n):
                    m.label_of(db._decompress(db.comb_class_list[lab]))
            finally:
                _DEPTH[0] -= 1
            m.adopted = True
    return m


def _is_class(db, key):
    return isinstance(key, db.combinatorial_class)


# ------------------------------------------------------------------ conditions


def lists_parallel(self):
    if _DEPTH[0] > 0:
        return True
    cx = base.ctx()
    n = len(self.empty_list)
    if n > CONFIG["invariant_cap"] and n % 50:
        return True
    cx.count("classdb.invariant_evaluated")
    ok = len(self.comb_class_list) == n == len(self.label_dict)
    if ok:
        seen = [False] * n
        for k, lab in self.label_dict.items():
            if not isinstance(lab, int) or not 0 <= lab < n or seen[lab] or self.comb_class_list[lab] != k:
                ok = False
                break
            seen[lab] = True
    if not ok:
        cx.violation("C15:containers-inconsistent",
                     f"lengths {len(self.comb_class_list)}/{len(self.label_dict)}/{n} or label_dict "
                     "is not a bijection onto range(len) consistent with the class list", None, raise_=False)
    return ok


def label_matches_model(self, key, result):
    if _DEPTH[0] > 0:
        return True
    cx = base.ctx()
    m = model_of(self)
    cx.count("classdb.get_label_checked")
    if _is_class(self, key):
        known = key in m.index
        want = m.label_of(key)
        if result != want:
            what = "a known class changed label" if known else "a new class did not get the next label"
            cx.violation("C15:wrong-label", f"get_label({key!r}) = {result}, model says {want} ({what})",
                         {"model_size": len(m.classes)}, raise_=False)
            return False
        return True
    if isinstance(key, int):
        if not 0 <= key < len(m.classes) or result != key:
            cx.violation("C15:wrong-label", f"get_label({key}) = {result} with {len(m.classes)} classes known",
                         None, raise_=False)
            return False
    return True


def class_matches_model(self, key, result):
    if _DEPTH[0] > 0:
        return True
    cx = base.ctx()
    m = model_of(self)
    cx.count("classdb.get_class_checked")
    if isinstance(key, int) and not isinstance(key, bool):
        if not 0 <= key < len(m.classes):
            cx.violation("C15:class-for-unknown-label", f"get_class({key}) returned {result!r} but only "
                         f"{len(m.classes)} classes are known", None, raise_=False)
            return False
        want = m.classes[key]
    else:
        want = m.classes[m.label_of(key)]
    if not (result == want and want == result and type(result) is type(want)):
        cx.violation("C15:wrong-class", f"get_class({key!r}) = {result!r}, stored class was {want!r}",
                     None, raise_=False)
        return False
    return True


def contains_matches_model(self, key, result):
    if _DEPTH[0] > 0:
        return True
    cx = base.ctx()
    m = model_of(self)
    cx.count("classdb.contains_checked")
    if _is_class(self, key):
        want = key in m.index
    else:
        want = 0 <= key < len(m.classes)
    if bool(result) != want:
        cx.violation("C15:membership-wrong", f"({key!r} in db) = {result}, model says {want} "
                     f"({len(m.classes)} classes known)", None, raise_=False)
        return False
    return True


def emptiness_matches_class(self, comb_class, label, result):
    if _DEPTH[0] > 0:
        return True
    cx = base.ctx()
    cx.count("classdb.is_empty_checked")
    if not _is_class(self, comb_class):
        return True
    truth = bool(comb_class.is_empty())
    if bool(result) != truth:
        m = model_of(self)
        lab = label if label is not None else m.label_of(comb_class, create=False)
        if lab is not None and m.told.get(lab) == bool(result):
            # a client *told* the database so (the searcher trusts possibly_empty=False of a
            # strategy): the cache faithfully holds what it was given - not the database's doing
            cx.count("classdb.emptiness_as_told_by_client_not_judged")
            return True
        cx.violation("C15:emptiness-wrong", f"is_empty({comb_class!r}, {label}) = {result}, the class "
                     f"itself says {truth}", None, raise_=False)
        return False
    m = model_of(self)
    if label is not None and _is_class(self, comb_class):
        want = m.label_of(comb_class, create=False)
        if want is not None and want != label:
            cx.note(f"is_empty called with label {label} for a class labelled {want}")
    return True


def add_recorded(self, comb_class, compressed):
    if _DEPTH[0] > 0:
        return True
    if not compressed and _is_class(self, comb_class):
        model_of(self).label_of(comb_class)
    return True


def told_recorded(self, key, empty):
    if _DEPTH[0] > 0:
        return True
    m = model_of(self)
    lab = key if isinstance(key, int) and not isinstance(key, bool) else m.label_of(key, create=False)
    if lab is not None:
        m.told[lab] = bool(empty)
    return True


def _err_told(self, key, empty):
    return base.Violation("C15:contract", "ClassDB.set_empty")


def _err_key(self, key):
    return base.Violation("C15:contract", f"ClassDB postcondition failed for key {key!r}")


def _err_empty(self, comb_class, label):
    return base.Violation("C15:contract", "ClassDB.is_empty postcondition failed")


def _err_add(self, comb_class, compressed):
    return base.Violation("C15:contract", "ClassDB.add postcondition failed")


def _err_inv(self):
    return base.Violation("C15:containers-inconsistent", "ClassDB invariant failed")


def _with_depth(orig, names, defaults=""):
    sig = ", ".join(names) if not defaults else defaults
    call = ", ".join(n.split("=")[0] for n in names)
    src = (
        f"def body({sig}):\n"
        f"    _DEPTH[0] += 1\n"
        f"    try:\n"
        f"        return orig({call})\n"
        f"    finally:\n"
        f"        _DEPTH[0] -= 1\n"
    )
    ns = {"_DEPTH": _DEPTH, "orig": orig}
    exec(src, ns)  # noqa: S102 - fixed template
    body = ns["body"]
    body.__name__ = orig.__name__
    return body


def _plain(orig):
    def body(self, key, empty=True):
        return orig(self, key, empty)

    body.__name__ = orig.__name__
    return body


def install():
    from comb_spec_searcher import class_db

    if _INSTALLED:
        return
    C = class_db.ClassDB
    _INSTALLED["orig"] = {n: getattr(C, n) for n in ("get_label", "get_class", "__contains__", "is_empty", "add")}
    C.get_label = icontract.ensure(label_matches_model, error=_err_key)(
        _with_depth(C.get_label, ["self", "key"]))
    C.get_class = icontract.ensure(class_matches_model, error=_err_key)(
        _with_depth(C.get_class, ["self", "key"]))
    C.__contains__ = icontract.ensure(contains_matches_model, error=_err_key)(
        _with_depth(C.__contains__, ["self", "key"]))
    C.is_empty = icontract.ensure(emptiness_matches_class, error=_err_empty)(
        _with_depth(C.is_empty, ["self", "comb_class", "label"], "self, comb_class, label=None"))
    C.add = icontract.ensure(add_recorded, error=_err_add)(
        _with_depth(C.add, ["self", "comb_class", "compressed"], "self, comb_class, compressed=False"))
    # set_empty is *not* depth-wrapped: the get_label it makes is a client-level look-up
    C.set_empty = icontract.ensure(told_recorded, error=_err_told)(_plain(C.set_empty))
    class_db.ClassDB = icontract.invariant(lists_parallel, error=_err_inv)(C)
