"""Shared monitor plumbing: the violation type, the per-case context that monitors
report into, evaluation counters and the guard flag."""
import os
import signal
import sys
import traceback

GUARD = "COMB_SPEC_SEARCHER_VERIF"


def guard_on() -> bool:
    return os.environ.get(GUARD, "") == "1"


class Violation(BaseException):
    """An oracle refuted the property on the execution being observed.

    Derives from BaseException so that `except Exception` blocks inside the library
    (there are several, e.g. utils.taylor_expand) cannot swallow it.
    """

    def __init__(self, mechanism, message, witness=None):
        super().__init__(f"{mechanism}: {message}")
        self.mechanism = mechanism
        self.message = message
        self.witness = witness


class CaseTimeout(BaseException):
    """Per-case wall-clock watchdog fired: the case is inconclusive."""


class Ctx:
    """What one case observed.  Monitors call count/see/violation on the current one."""

    def __init__(self):
        self.counters = {}
        self.seen = {}
        self.violations = []
        self.notes = []

    def count(self, name, k=1):
        self.counters[name] = self.counters.get(name, 0) + k

    def see(self, category, value):
        self.seen.setdefault(category, set()).add(value)

    def violation(self, mechanism, message, witness=None, raise_=True):
        v = {"mechanism": mechanism, "message": str(message)[:2000], "witness": witness}
        if len(self.violations) < 20:
            self.violations.append(v)
        if raise_:
            raise Violation(mechanism, message, witness)

    def note(self, text):
        if len(self.notes) < 20:
            self.notes.append(str(text)[:500])


_CURRENT = Ctx()


def ctx() -> Ctx:
    return _CURRENT


def new_ctx() -> Ctx:
    global _CURRENT
    _CURRENT = Ctx()
    return _CURRENT


def _alarm(signum, frame):
    raise CaseTimeout()


class watchdog:
    """Wall-clock watchdog around one case (SIGALRM -> CaseTimeout).  A firing is
    *inconclusive*, never a violation."""

    def __init__(self, seconds):
        self.seconds = seconds

    def __enter__(self):
        self.old = signal.signal(signal.SIGALRM, _alarm)
        signal.setitimer(signal.ITIMER_REAL, self.seconds)

    def __exit__(self, *exc):
        signal.setitimer(signal.ITIMER_REAL, 0)
        signal.signal(signal.SIGALRM, self.old)
        return False


def short_tb(exc, limit=6):
    tb = traceback.extract_tb(exc.__traceback__)
    frames = [f"{os.path.basename(f.filename)}:{f.lineno}:{f.name}" for f in tb[-limit:]]
    return frames


def crash_site(exc):
    """Innermost frame inside comb_spec_searcher (file:function), used to key crash
    mechanisms."""
    tb = traceback.extract_tb(exc.__traceback__)
    for f in reversed(tb):
        if "comb_spec_searcher" in f.filename:
            return f"{os.path.basename(f.filename)}:{f.name}"
    if tb:
        f = tb[-1]
        return f"{os.path.basename(f.filename)}:{f.name}"
    return "?"


def silence_logging():
    """comb_spec_searcher resets logzero to INFO at import: call this *after* import."""
    import logging

    import comb_spec_searcher  # noqa: F401
    import logzero

    logzero.loglevel(logging.CRITICAL)
    logging.getLogger("logzero_default").setLevel(logging.CRITICAL)


def add_deps_path():
    home = os.environ.get("VERIF_HOME") or os.path.dirname(
        os.path.dirname(os.path.abspath(__file__))
    )
    deps = os.path.join(home, ".deps")
    if deps not in sys.path:
        sys.path.append(deps)  # append: the repo's pinned typing_extensions must win
