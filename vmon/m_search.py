"""Recording wrappers on CombinatorialSpecificationSearcher: the stream of work packets
handed to `_expand` and every `has_specification` call.  They also drive the virtual
clock of the schedule attached to a searcher (see vmon.clock.Schedule).

State is kept here keyed by id(searcher) – nothing is added to the searcher itself, whose
__dict__ takes part in equality and pickling."""
from vmon import base

_INSTALLED = {}
_STATE = {}  # id(searcher) -> State


class State:
    def __init__(self, searcher):
        self.searcher = searcher
        self.schedule = None
        self.packets = []  # (label, strategies repr, inferral)
        self.spec_checks = []  # (n_packets_so_far, answer)
        self.on_packet = None  # optional callback(searcher, state)
        self.pending = None  # last packet the queue handed to the search loop: [packet, consumed]


def reset():
    _STATE.clear()


def state_of(searcher):
    st = _STATE.get(id(searcher))
    if st is None or st.searcher is not searcher:
        st = State(searcher)
        _STATE[id(searcher)] = st
    return st


def attach(searcher, schedule=None, on_packet=None):
    st = state_of(searcher)
    st.schedule = schedule
    st.on_packet = on_packet
    return st


_LOOPING = []  # searchers currently inside _expand_classes_for (innermost last)


def _settle(searcher, st):
    """No loss between the queue and the expansion: a work packet the queue handed to the
    search loop is either expanded or skipped because its class is verified (and verified
    classes are not being expanded) - judged before anything else can change the
    verification status, i.e. at the next hand-out or when the loop is left, also by an
    exception (time limit)."""
    if st.pending is None:
        return
    packet, consumed = st.pending
    st.pending = None
    cx = base.ctx()
    cx.count("search.handouts_accounted")
    if consumed:
        return
    label = packet[0]
    if (not searcher.expand_verified) and searcher.ruledb.is_verified(label):
        cx.count("search.handouts_skipped_verified")
        return
    cx.violation("C17:work-packet-lost",
                 f"the queue handed out {packet} to the search loop, which neither expanded it nor could skip it "
                 f"(label {label} is not verified); the queue will never hand it out again",
                 {"packet": [packet[0], list(packet[1]), packet[2]]})


def install():
    import comb_spec_searcher.class_queue as qmod
    import comb_spec_searcher.comb_spec_searcher as mod

    if _INSTALLED:
        return
    cls = mod.CombinatorialSpecificationSearcher
    orig_expand = cls._expand
    orig_has = cls.has_specification
    orig_loop = cls._expand_classes_for
    orig_next = qmod.DefaultQueue.__next__

    def _expand_classes_for(self, *a, **k):
        st = state_of(self)
        st.pending = None
        _LOOPING.append(self)
        try:
            return orig_loop(self, *a, **k)
        finally:
            _LOOPING.pop()
            _settle(self, st)

    def __next__(queue):
        s = _LOOPING[-1] if _LOOPING else None
        if s is not None and s.classqueue is queue:
            st = state_of(s)
            _settle(s, st)
            wp = orig_next(queue)
            st.pending = [(wp.label, tuple(map(repr, wp.strategies)), bool(wp.inferral)), False]
            return wp
        return orig_next(queue)

    cls._expand_classes_for = _expand_classes_for
    qmod.DefaultQueue.__next__ = __next__
    _INSTALLED["loop"] = orig_loop
    _INSTALLED["next"] = orig_next

    def _expand(self, comb_class, label, strategies, inferral):
        st = state_of(self)
        st.packets.append((label, tuple(map(repr, strategies)), bool(inferral)))
        if st.pending is not None and st.pending[0] == st.packets[-1]:
            st.pending[1] = True
        base.ctx().count("search.packets")
        try:
            return orig_expand(self, comb_class, label, strategies, inferral)
        finally:
            if st.schedule is not None:
                st.schedule.on_packet()
            if st.on_packet is not None:
                st.on_packet(self, st)

    def has_specification(self):
        st = state_of(self)
        res = orig_has(self)
        st.spec_checks.append((len(st.packets), bool(res)))
        base.ctx().count("search.has_specification_calls")
        if st.schedule is not None:
            st.schedule.on_spec_search()
        return res

    cls._expand = _expand
    cls.has_specification = has_specification
    _INSTALLED["expand"] = orig_expand
    _INSTALLED["has"] = orig_has
