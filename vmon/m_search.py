"""Recording wrappers on CombinatorialSpecificationSearcher: the stream of work packets
handed to `_expand` and every `has_specification` call.  They also drive the virtual
clock of the schedule attached to a searcher (see vmon.clock.Schedule).

State is kept here keyed by id(searcher) – nothing is added to the searcher itself, whose
__dict__ takes part in equality and pickling."""
from vmon import base

_INSTALLED = {}
_STATE = {}  # id(searcher) -> State


class State:
    def __init__(self, searcher):
        self.searcher = searcher
        self.schedule = None
        self.packets = []  # (label, strategies repr, inferral)
        self.spec_checks = []  # (n_packets_so_far, answer)
        self.on_packet = None  # optional callback(searcher, state)


def reset():
    _STATE.clear()


def state_of(searcher):
    st = _STATE.get(id(searcher))
    if st is None or st.searcher is not searcher:
        st = State(searcher)
        _STATE[id(searcher)] = st
    return st


def attach(searcher, schedule=None, on_packet=None):
    st = state_of(searcher)
    st.schedule = schedule
    st.on_packet = on_packet
    return st


def install():
    import comb_spec_searcher.comb_spec_searcher as mod

    if _INSTALLED:
        return
    cls = mod.CombinatorialSpecificationSearcher
    orig_expand = cls._expand
    orig_has = cls.has_specification

    def _expand(self, comb_class, label, strategies, inferral):
        st = state_of(self)
        st.packets.append((label, tuple(map(repr, strategies)), bool(inferral)))
        base.ctx().count("search.packets")
        try:
            return orig_expand(self, comb_class, label, strategies, inferral)
        finally:
            if st.schedule is not None:
                st.schedule.on_packet()
            if st.on_packet is not None:
                st.on_packet(self, st)

    def has_specification(self):
        st = state_of(self)
        res = orig_has(self)
        st.spec_checks.append((len(st.packets), bool(res)))
        base.ctx().count("search.has_specification_calls")
        if st.schedule is not None:
            st.schedule.on_spec_search()
        return res

    cls._expand = _expand
    cls.has_specification = has_specification
    _INSTALLED["expand"] = orig_expand
    _INSTALLED["has"] = orig_has
