#!/bin/bash
# Offline setup: third-party pieces the harness needs (icontract, jsonschema) go into
# /verif/.deps (git-ignored) from the wheelhouse.  Idempotent.
set -eu
HERE="$(cd "$(dirname "${BASH_SOURCE[0]}")" && pwd)"
PY="${VERIF_PYTHON:-/venv/bin/python}"
if [ ! -d "$HERE/.deps/icontract" ] || [ ! -d "$HERE/.deps/jsonschema" ]; then
  PIP_NO_INDEX=1 "$PY" -m pip install --quiet --no-index --find-links /opt/veriftools/wheels \
      --target "$HERE/.deps" icontract jsonschema 2>&1 | grep -v "dependency resolver\|requires typing-extensions\|incompatible" || true
fi
test -d "$HERE/.deps/icontract"
mkdir -p "$HERE/evidence" "$HERE/replays"
