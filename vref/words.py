"""R-words: ground truth for the word universe, recomputed from the class *descriptor*
(prefix, patterns, alphabet, just_prefix, stats) by brute force.  Shares no code with
vuniv.words beyond that descriptor."""
import functools
import itertools
import json
from collections import Counter


def key(desc):
    right = desc.get("right")
    return json.dumps(
        [desc["prefix"], sorted(desc["patterns"]), "".join(sorted(desc["alphabet"])),
         bool(desc["just_prefix"]), sorted(map(tuple, desc["stats"])),
         bool(desc.get("proper")) and not desc["just_prefix"],
         None if right is None else json.loads(key(dict(right, stats=desc["stats"], flags=""))),
         "".join(sorted(set(desc.get("flags") or ""))) if (right is None and not desc["just_prefix"]) else ""]
    )


def desc_of(comb_class):
    """Descriptor of a vuniv.words class, read from its public attributes."""
    return {
        "prefix": str(comb_class.prefix),
        "patterns": [str(p) for p in comb_class.patterns],
        "alphabet": "".join(comb_class.alphabet),
        "just_prefix": bool(comb_class.just_prefix),
        "stats": [list(s) for s in comb_class.stats],
        "proper": bool(comb_class.proper),
        "right": None if comb_class.right is None else desc_of(comb_class.right),
        "flags": getattr(comb_class, "flags", ""),
    }


@functools.lru_cache(maxsize=200000)
def _objects(k, n):
    prefix, patterns, alphabet, just_prefix, stats, proper, right, flags = json.loads(k)
    out = []
    if flags:
        # every word of the unflagged class preceded by one flag letter
        if n >= 1:
            base_k = json.dumps([prefix, patterns, alphabet, just_prefix, stats, proper, right, ""])
            out.extend(f + w for w in _objects(base_k, n - 1) for f in flags)
        return tuple(out)
    if right is not None:
        # pairs u|v: u from the left description, v from the right one, '|' counts as a letter
        left_k = json.dumps([prefix, patterns, alphabet, just_prefix, stats, proper, None, ""])
        right_k = json.dumps(right)
        for i in range(n):
            lefts = _objects(left_k, i)
            if lefts:
                for v in _objects(right_k, n - 1 - i):
                    out.extend(u + "|" + v for u in lefts)
        return tuple(out)
    if any(p in prefix for p in patterns):
        return ()
    if just_prefix:
        return (prefix,) if n == len(prefix) else ()
    if n < len(prefix) or (proper and n == len(prefix)):
        return ()
    for tail in itertools.product(alphabet, repeat=n - len(prefix)):
        w = prefix + "".join(tail)
        ok = True
        for p in patterns:
            if p in w:
                ok = False
                break
        if ok:
            out.append(w)
    return tuple(out)


def objects(desc, n):
    return _objects(key(desc), n)


def stat_names(desc):
    return tuple(k for k, _ in sorted(map(tuple, desc["stats"])))


def _count(letters, word):
    # sided statistics of pair classes: '<' = counted in the left word of u|v only, '>' = right only
    if "|" in word and ("<" in letters or ">" in letters):
        u, v = word.split("|", 1)
        word = u if "<" in letters else v
    return sum(1 for ch in word if ch in letters)


def params(desc, word):
    return tuple(_count(letters, word) for _, letters in sorted(map(tuple, desc["stats"])))


@functools.lru_cache(maxsize=200000)
def _terms(k, n):
    desc = _desc_from_key(k)
    c = Counter()
    for w in _objects(k, n):
        c[params(desc, w)] += 1
    return c


def _desc_from_key(k):
    prefix, patterns, alphabet, just_prefix, stats, proper, right, flags = json.loads(k)
    return {"prefix": prefix, "patterns": patterns, "alphabet": alphabet,
            "just_prefix": just_prefix, "stats": stats, "proper": proper,
            "right": None if right is None else _desc_from_key(json.dumps(right)), "flags": flags}


def terms(desc, n):
    """Counter {parameter tuple: number of objects of size n}."""
    return _terms(key(desc), n)


def objects_by_params(desc, n):
    out = {}
    for w in objects(desc, n):
        out.setdefault(params(desc, w), []).append(w)
    return out


def is_empty(desc):
    """No object of any size.  Decided from the enumeration itself: a word class is
    non-empty iff it has an object of size |prefix| or |prefix|+1."""
    if desc.get("flags"):
        return is_empty(dict(desc, flags=""))
    if desc.get("right") is not None:
        return is_empty(dict(desc, right=None)) or is_empty(dict(desc["right"], stats=desc["stats"]))
    n = len(desc["prefix"])
    return not objects(desc, n) and not objects(desc, n + 1)


def norm(counter):
    """Drop zero entries (Counter() and Counter({(): 0}) must compare equal)."""
    return {k: v for k, v in counter.items() if v}
