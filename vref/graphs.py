"""Small graph oracles: R-scc (strongly connected components), R-gfp (greatest fixed
point pruning), R-iter (bottom-up derivability), R-tree (proof tree validity) and the
exhaustive minimum proof-tree size."""
import itertools


def scc(nodes, edges):
    """Tarjan.  edges: iterable of (a, b).  Returns dict node -> component id."""
    adj = {n: [] for n in nodes}
    for a, b in edges:
        adj.setdefault(a, []).append(b)
        adj.setdefault(b, [])
    index, low, comp = {}, {}, {}
    stack, on = [], set()
    counter = [0]
    ncomp = [0]
    for root in list(adj):
        if root in index:
            continue
        work = [(root, iter(adj[root]))]
        index[root] = low[root] = counter[0]
        counter[0] += 1
        stack.append(root)
        on.add(root)
        while work:
            v, it = work[-1]
            advanced = False
            for w in it:
                if w not in index:
                    index[w] = low[w] = counter[0]
                    counter[0] += 1
                    stack.append(w)
                    on.add(w)
                    work.append((w, iter(adj[w])))
                    advanced = True
                    break
                if w in on:
                    low[v] = min(low[v], index[w])
            if advanced:
                continue
            work.pop()
            if work:
                u = work[-1][0]
                low[u] = min(low[u], low[v])
            if low[v] == index[v]:
                while True:
                    w = stack.pop()
                    on.discard(w)
                    comp[w] = ncomp[0]
                    if w == v:
                        break
                ncomp[0] += 1
    return comp


def reach_closure(nodes, edges):
    """Plain reachability (used to cross-check scc on small inputs)."""
    adj = {n: set() for n in nodes}
    for a, b in edges:
        adj.setdefault(a, set()).add(b)
        adj.setdefault(b, set())
    reach = {}
    for n in adj:
        seen, todo = {n}, [n]
        while todo:
            v = todo.pop()
            for w in adj[v]:
                if w not in seen:
                    seen.add(w)
                    todo.append(w)
        reach[n] = seen
    return reach


class UnionFind:
    def __init__(self):
        self.p = {}

    def find(self, x):
        self.p.setdefault(x, x)
        while self.p[x] != x:
            self.p[x] = self.p[self.p[x]]
            x = self.p[x]
        return x

    def union(self, a, b):
        a, b = self.find(a), self.find(b)
        if a != b:
            self.p[a] = b


# ---------------------------------------------------------------- rules dictionaries


def gfp_prune(rules_dict):
    """Greatest fixed point: keep a rule iff all its children keep some rule.
    rules_dict: {label: set of tuples}.  Returns a new dict."""
    rd = {k: set(v) for k, v in rules_dict.items() if v}
    while True:
        alive = set(rd)
        new = {}
        for k, rs in rd.items():
            keep = {r for r in rs if all(c in alive for c in r)}
            if keep:
                new[k] = keep
        if new == rd:
            return rd
        rd = new


def iter_derivable(rules_dict, root=None):
    """Bottom-up derivability with `root` pre-verified.  Returns (verified labels that
    obtained a rule, dict label -> set of rules all of whose children were verified at
    the time the rule was accepted or later)."""
    verified = set()
    if root is not None:
        verified.add(root)
    have_rule = {}
    changed = True
    while changed:
        changed = False
        for k, rs in rules_dict.items():
            for r in rs:
                if all(c in verified for c in r):
                    if r not in have_rule.get(k, ()):
                        have_rule.setdefault(k, set()).add(r)
                        changed = True
                    if k not in verified:
                        verified.add(k)
                        changed = True
    return verified, have_rule


def tree_check(node, rules_dict, root, allow_root_leaf=False):
    """R-tree.  Returns None if `node` is a valid proof tree for `root` over rules_dict,
    else a string saying what is wrong.

    valid: the root node carries `root`; every internal node (label, sorted child labels)
    is a recorded rule; all internal occurrences of one label use the same rule; every
    leaf label is expanded elsewhere in the tree or has the nullary rule (or, in
    iterative mode, is the root itself)."""
    if node.label != root:
        return f"root label {node.label} != {root}"
    expansions = {}
    leaves = set()
    todo = [node]
    count = 0
    while todo:
        v = todo.pop()
        count += 1
        if count > 200000:
            return "tree too large"
        if v.children:
            key = tuple(sorted(c.label for c in v.children))
            if key not in rules_dict.get(v.label, ()):
                return f"node {v.label} -> {key} is not a recorded rule"
            prev = expansions.setdefault(v.label, key)
            if prev != key:
                return f"label {v.label} expanded with two different rules {prev} and {key}"
            todo.extend(v.children)
        else:
            leaves.add(v.label)
    for lab in leaves:
        if lab in expansions:
            continue
        if () in rules_dict.get(lab, ()):
            continue
        if allow_root_leaf and lab == root:
            continue
        return f"leaf {lab} has no rule in the tree and no nullary rule"
    return None


def tree_size(node):
    return 1 + sum(tree_size(c) for c in node.children)


def min_tree_size(rules_dict, root, limit=300000):
    """Exhaustive minimum size (number of nodes) of a proof tree for `root`.

    A proof tree is determined by a choice function f giving every label reachable from
    the root one of its rules; every label is expanded exactly once and is a leaf at its
    other occurrences, so the number of nodes is 1 + sum over reachable labels of |f(l)|,
    whatever the traversal order.  Branch and bound over choice functions.  Returns None
    if no tree exists or more than `limit` steps were needed (inconclusive)."""
    best = [None]
    steps = [0]
    sorted_rules = {k: sorted(v, key=len) for k, v in rules_dict.items()}

    def go(assigned, pending, size):
        steps[0] += 1
        if steps[0] > limit:
            raise OverflowError
        if best[0] is not None and size >= best[0]:
            return
        while pending and pending[-1] in assigned:
            pending = pending[:-1]
        if not pending:
            best[0] = size
            return
        label, rest = pending[-1], pending[:-1]
        for rule in sorted_rules.get(label, ()):
            assigned[label] = rule
            go(assigned, rest + tuple(c for c in rule if c not in assigned), size + len(rule))
            del assigned[label]

    try:
        go({}, (root,), 1)
    except OverflowError:
        return None
    return best[0]
