"""R-lfp: least fixed point of the "terms computable" operator.

A rule is (parent, children, shifts).  f(c) = number of terms of c that can be computed
(None = all of them).  A rule lets its parent compute the term of size n when every child
i already has the term of size n - s_i, hence

    T(f)(p) = max( f(p),  max over rules of p  min_i ( f(c_i) + s_i ) ),   min {} = oo

and the value sought is the least fixed point above f = 0.  It is computed by Kleene
iteration on the finite lattice {0..B, oo}, B = N*S + S (N classes, S = max |shift|, at
least 1), promoting every value above B to oo.  Soundness of the promotion is the gap
lemma of DESIGN.md section 3.  `lfp_capped` is the lemma-free lower bound used as a
cross-check of the oracle itself.
"""
from collections import defaultdict

INF = None


def _labels(rules):
    labels = set()
    for p, cs, _ in rules:
        labels.add(p)
        labels.update(cs)
    return labels


def lfp(rules, extra_labels=()):
    rules = [(p, tuple(cs), tuple(sh)) for p, cs, sh in rules]
    labels = _labels(rules) | set(extra_labels)
    n = max(1, len(labels))
    s = max([1] + [abs(x) for _, _, sh in rules for x in sh])
    bound = n * s + s
    f = {lab: 0 for lab in labels}
    by_child = defaultdict(list)
    for idx, (p, cs, _) in enumerate(rules):
        for c in set(cs):
            by_child[c].append(idx)
    work = list(range(len(rules)))
    queued = set(work)
    while work:
        idx = work.pop()
        queued.discard(idx)
        p, cs, sh = rules[idx]
        if f[p] is INF:
            continue
        v = INF
        for c, x in zip(cs, sh):
            fc = f[c]
            if fc is INF:
                continue
            cand = fc + x
            if v is INF or cand < v:
                v = cand
        if v is INF or v > bound:
            new = INF
        elif v > f[p]:
            new = v
        else:
            continue
        f[p] = new
        for j in by_child.get(p, ()):
            if j not in queued:
                queued.add(j)
                work.append(j)
    return f


def lfp_capped(rules, extra_labels=(), factor=4):
    """Plain iteration with a cap and no promotion: a lower bound of the least fixed
    point that equals it on every finite value (cap - S exceeds N*S)."""
    rules = [(p, tuple(cs), tuple(sh)) for p, cs, sh in rules]
    labels = _labels(rules) | set(extra_labels)
    n = max(1, len(labels))
    s = max([1] + [abs(x) for _, _, sh in rules for x in sh])
    cap = factor * (n * s + s)
    f = {lab: 0 for lab in labels}
    changed = True
    while changed:
        changed = False
        for p, cs, sh in rules:
            v = cap
            for c, x in zip(cs, sh):
                v = min(v, f[c] + x)
            v = min(v, cap)
            if v > f[p]:
                f[p] = v
                changed = True
    return f, cap


def consistent(f, capped, cap):
    """Cross-check of the two computations; False means the *oracle* is unreliable on
    this input and the case must be treated as inconclusive."""
    for lab, v in f.items():
        c = capped[lab]
        if v is INF:
            continue
        if c != v:
            return False
    return True


def productive_for(rules, label):
    return lfp(rules, extra_labels=(label,))[label] is INF
