"""W3: integer universes – finite rule sets over labels 0..N-1.

A rule is [parent, [children...], [shifts...], bucket] with bucket one of
"VERIFICATION", "EQUIV", "NORMAL", "REVERSE".  Everything is JSON-able and derived from
a random.Random seeded with a string, so generation is reproducible across processes.
"""
import random

BUCKETS = ("VERIFICATION", "EQUIV", "NORMAL", "REVERSE")


def _bucket(rng, arity):
    if arity == 0:
        return "VERIFICATION"
    if arity == 1:
        return rng.choice(("EQUIV", "EQUIV", "NORMAL", "REVERSE"))
    return rng.choice(("NORMAL", "NORMAL", "NORMAL", "REVERSE"))


def random_rule(rng, n, max_arity=3, max_shift=3, min_shift=-3):
    arity = rng.choice((0, 1, 1, 2, 2, 2, 3)[: 2 + 2 * max_arity])
    arity = min(arity, max_arity)
    parent = rng.randrange(n)
    children = [rng.randrange(n) for _ in range(arity)]
    shifts = [rng.randint(min_shift, max_shift) for _ in range(arity)]
    return [parent, children, shifts, _bucket(rng, arity)]


def random_universe(rng, n=None, nrules=None, max_shift=None, min_shift=None, p_ver=None):
    n = n or rng.randint(2, 7)
    nrules = nrules or rng.randint(2, 12)
    if max_shift is None:
        max_shift = rng.choice((1, 1, 2, 3))
    if min_shift is None:
        min_shift = -rng.choice((0, 0, 1, 2, 3))
    rules = [random_rule(rng, n, 3, max_shift, min_shift) for _ in range(nrules)]
    if rng.random() < 0.3:  # duplicate keys
        rules.append(list(rng.choice(rules)))
    return rules


def hostile_universe(rng):
    """Hand-shaped families aimed at the gap bookkeeping of the table method."""
    kind = rng.choice(
        ("neg_chain", "boundary", "late_gap", "selfloops", "two_cycles", "mixed", "ladder")
    )
    rules = []
    if kind == "neg_chain":
        # a positive cycle 0 -> 1 -> 0 fed through a chain of negative shifts
        k = rng.randint(2, 5)
        rules.append([0, [], [], "VERIFICATION"]) if rng.random() < 0.5 else None
        rules.append([1, [2], [rng.randint(1, 2)], "NORMAL"])
        rules.append([2, [1], [rng.randint(0, 1)], "NORMAL"])
        prev = 1
        for i in range(k):
            lab = 3 + i
            rules.append([lab, [prev], [-rng.randint(1, 3)], "NORMAL"])
            prev = lab
        rules.append([2, [prev, 0], [rng.randint(0, 3), 0], "NORMAL"])
    elif kind == "boundary":
        # classes whose finite value sits exactly at the edge of the gap
        s = rng.randint(1, 3)
        rules.append([0, [], [], "VERIFICATION"])
        rules.append([1, [1, 0], [1, 0], "NORMAL"])
        for i in range(rng.randint(1, 4)):
            rules.append([2 + i, [5, 0], [i + rng.randint(0, s), rng.randint(-s, s)], "NORMAL"])
        rules.append([5, [6], [0], "EQUIV"])
        if rng.random() < 0.5:
            rules.append([6, [5], [s], "NORMAL"])
    elif kind == "late_gap":
        # small shifts first, one rule with a large |shift| at a random position
        n = rng.randint(3, 6)
        for _ in range(rng.randint(3, 8)):
            rules.append(random_rule(rng, n, 2, 1, -1))
        big = random_rule(rng, n, 2, 1, -1)
        if big[1]:
            big[2][0] = rng.choice((-3, 3, -2, 2))
        rules.insert(rng.randrange(len(rules) + 1), big)
    elif kind == "selfloops":
        n = rng.randint(2, 4)
        for lab in range(n):
            rules.append([lab, [lab], [rng.choice((0, 1, -1, 1))], "NORMAL"])
        for _ in range(rng.randint(1, 5)):
            rules.append(random_rule(rng, n, 2, 2, -2))
    elif kind == "two_cycles":
        a, b = rng.randint(1, 3), rng.randint(-3, 0)
        rules += [[0, [1], [a], "NORMAL"], [1, [0], [b], "NORMAL"]]
        rules += [[2, [3], [rng.randint(0, 2)], "NORMAL"], [3, [2, 0], [rng.randint(0, 2), rng.randint(-2, 2)], "NORMAL"]]
        if rng.random() < 0.6:
            rules.append([rng.choice((0, 2)), [], [], "VERIFICATION"])
    elif kind == "ladder":
        # 0 verified; i -> (i-1) with shift -1: finite values descend... and one climb
        k = rng.randint(3, 6)
        rules.append([0, [0], [1], "NORMAL"])
        for i in range(1, k):
            rules.append([i, [i - 1], [rng.choice((-1, -2, 0))], "NORMAL"])
        rules.append([k, [k - 1, k], [rng.randint(-1, 2), 1], "NORMAL"])
    else:
        rules = random_universe(rng, n=rng.randint(4, 7), nrules=rng.randint(8, 14), max_shift=3, min_shift=-3)
    rules = [r for r in rules if r is not None]
    rng.shuffle(rules)
    return rules


def orders(rng, rules, exhaustive_upto=5, n_random=6):
    """Insertion orders of one multiset: all permutations when small, else random orders
    plus grouped orders (all rules of a parent together, forwards and reversed)."""
    import itertools

    idx = list(range(len(rules)))
    if len(rules) <= exhaustive_upto:
        seen, out = set(), []
        for perm in itertools.permutations(idx):
            key = tuple(map(lambda i: repr(rules[i]), perm))
            if key in seen:
                continue
            seen.add(key)
            out.append(list(perm))
        return out, True
    out = [idx[:]]
    for _ in range(n_random):
        p = idx[:]
        rng.shuffle(p)
        out.append(p)
    grouped = sorted(idx, key=lambda i: (rules[i][0], i))
    out.append(grouped)
    out.append(grouped[::-1])
    out.append(sorted(idx, key=lambda i: (-len(rules[i][1]), i)))  # big rules first
    return out, False


def rng_for(*parts):
    return random.Random("/".join(map(str, parts)))
