"""W3 wrapped as *real* strategies: class Lab(i), children given by a table row, so that
the real searcher, queue, class DB and rule DBs can be driven over arbitrary rule graphs.

A table is a list of rows [parent, [children], [shifts], two_way, reversible].  The
judged mode (see DESIGN.md, W3) keeps: unary rows have shift 0, two_way => reversible,
can_be_equivalent() <=> two_way.  Rows of arity 0 are verification rules.
Such universes have no counting semantics: only structural clauses are judged on them.
"""
from comb_spec_searcher import CombinatorialClass, StrategyPack, VerificationStrategy
from comb_spec_searcher.exception import InvalidOperationError
from comb_spec_searcher.strategies.constructor import Constructor
from comb_spec_searcher.strategies.strategy import Strategy


class Lab(CombinatorialClass):
    def __init__(self, i, empty=False):
        self.i = i
        self.empty = bool(empty)

    def is_empty(self):
        return self.empty

    def __eq__(self, other):
        return isinstance(other, Lab) and (self.i, self.empty) == (other.i, other.empty)

    def __hash__(self):
        return hash((self.i, self.empty))

    def __repr__(self):
        return f"Lab({self.i}{',empty' if self.empty else ''})"

    __str__ = __repr__

    def to_jsonable(self):
        d = super().to_jsonable()
        d.update(i=self.i, empty=self.empty)
        return d

    @classmethod
    def from_dict(cls, d):
        return cls(d["i"], d["empty"])

    def is_atom(self):
        return False

    def minimum_size_of_object(self):
        return 0


class Dummy(Constructor):
    def __init__(self, eqv=True):
        self.eqv = eqv

    def can_be_equivalent(self):
        return self.eqv

    def get_equation(self, lhs_func, rhs_funcs):
        raise NotImplementedError

    def reliance_profile(self, n, **parameters):
        raise NotImplementedError

    def get_terms(self, parent_terms, subterms, n):
        raise NotImplementedError

    def get_sub_objects(self, subobjs, n):
        raise NotImplementedError

    def random_sample_sub_objects(self, *a, **k):
        raise NotImplementedError

    def equiv(self, other, data=None):
        return (isinstance(other, Dummy), None)


class TableStrategy(Strategy):
    def __init__(self, table, idx, empties=()):
        self.table = tuple(tuple(tuple(x) if isinstance(x, list) else x for x in row) for row in table)
        self.idx = idx
        self.empties = tuple(empties)
        super().__init__(ignore_parent=False, inferrable=True, possibly_empty=True, workable=True)

    def _row(self):
        return self.table[self.idx]

    def decomposition_function(self, c):
        p, ch = self._row()[0], self._row()[1]
        if not isinstance(c, Lab) or c.i != p or c.empty:
            return None
        return tuple(Lab(x, x in self.empties) for x in ch)

    def can_be_equivalent(self):
        return bool(self._row()[3])

    def is_two_way(self, c):
        return bool(self._row()[3])

    def is_reversible(self, c):
        return bool(self._row()[4])

    def shifts(self, c, children=None):
        return tuple(self._row()[2])

    def constructor(self, c, children=None):
        return Dummy()

    def reverse_constructor(self, idx, c, children=None):
        return Dummy()

    def backward_map(self, c, objs, children=None):
        raise NotImplementedError

    def forward_map(self, c, obj, children=None):
        raise NotImplementedError

    def formal_step(self):
        return f"row {self.idx}"

    def __repr__(self):
        return f"T{self.idx}"

    @classmethod
    def from_dict(cls, d):
        raise NotImplementedError


class TableVer(VerificationStrategy):
    def __init__(self, labels):
        self.labels = frozenset(labels)
        super().__init__()

    def verified(self, c):
        return isinstance(c, Lab) and c.i in self.labels and not c.empty

    def formal_step(self):
        return "table verified"

    def pack(self, c):
        raise InvalidOperationError("no pack")

    @classmethod
    def from_dict(cls, d):
        raise NotImplementedError

    def __repr__(self):
        return "TableVer"


def random_table(rng, n=None, nrows=None, p_empty=0.15):
    """Judged-mode table: unary rows have shift 0; two_way => reversible."""
    n = n or rng.randint(3, 7)
    nrows = nrows or rng.randint(3, 14)
    rows = []
    for _ in range(nrows):
        arity = rng.choice((0, 1, 1, 1, 2, 2, 2, 3))
        parent = rng.randrange(n)
        children = [rng.randrange(n) for _ in range(arity)]
        if arity == 1:
            shifts = [0]
        else:
            shifts = [rng.randint(0, 2) for _ in range(arity)]
        two_way = arity >= 1 and rng.random() < (0.6 if arity == 1 else 0.3)
        reversible = two_way or (arity >= 1 and rng.random() < 0.3)
        rows.append([parent, children, shifts, bool(two_way), bool(reversible)])
    empties = [x for x in range(n) if rng.random() < p_empty]
    # honesty: a rule that is left with a single non-empty child is an equivalence and
    # must not shift it (a class cannot equal a shifted copy of another one)
    for row in rows:
        nonempty = [i for i, c in enumerate(row[1]) if c not in empties]
        if len(nonempty) == 1:
            row[2][nonempty[0]] = 0
    return {"n": n, "rows": rows, "empties": empties}


def add_twin_unary_rows(rng, table, k=None):
    """Hostile shape for the rule databases: for k unary rows add a twin between the same
    two labels with the opposite two-way flag, in either orientation, at a random position
    (so a one-way single-child rule and a two-way one meet on one pair of classes, in both
    arrival orders).  Tables without a unary row get one first."""
    rows, n = table["rows"], table["n"]
    unary = [r for r in rows if len(r[1]) == 1 and r[1][0] != r[0]]
    if not unary:
        a, b = rng.sample(range(n), 2) if n >= 2 else (0, 0)
        if a == b:
            return table
        two_way = rng.random() < 0.5
        unary = [[a, [b], [0], two_way, two_way or rng.random() < 0.3]]
        rows.insert(rng.randrange(len(rows) + 1), unary[0])
    for _ in range(k or rng.randint(1, 2)):
        p, (c,), _, two_way, _ = rng.choice(unary)
        a, b = (p, c) if rng.random() < 0.5 else (c, p)
        tw = not two_way
        rows.insert(rng.randrange(len(rows) + 1), [a, [b], [0], tw, tw or rng.random() < 0.3])
    return table


def build_pack(table, iterative=False, sets=1):
    rows, empties = table["rows"], table["empties"]
    strats = [TableStrategy(rows, i, empties) for i, r in enumerate(rows) if len(r[1]) > 0]
    ver = TableVer([r[0] for r in rows if len(r[1]) == 0])
    if sets == 1 or len(strats) < 2:
        exp = [strats]
    else:
        half = len(strats) // 2
        exp = [strats[:half], strats[half:]]
    return StrategyPack(initial_strats=[], inferral_strats=[], expansion_strats=exp,
                        ver_strats=[ver], name="table", iterative=iterative)
