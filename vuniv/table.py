"""W3 wrapped as *real* strategies: class Lab(i), children given by a table row, so that
the real searcher, queue, class DB and rule DBs can be driven over arbitrary rule graphs.

A table is a list of rows [parent, [children], [shifts], two_way, reversible].  The
judged mode (see DESIGN.md, W3) keeps: unary rows have shift 0, two_way => reversible,
can_be_equivalent() <=> two_way.  Rows of arity 0 are verification rules.
Such universes have no counting semantics: only structural clauses are judged on them.
"""
from comb_spec_searcher import CombinatorialClass, StrategyPack, VerificationStrategy
from comb_spec_searcher.exception import InvalidOperationError
from comb_spec_searcher.strategies.constructor import Constructor
from comb_spec_searcher.strategies.strategy import Strategy, StrategyFactory


class Lab(CombinatorialClass):
    def __init__(self, i, empty=False):
        self.i = i
        self.empty = bool(empty)

    def is_empty(self):
        return self.empty

    def __eq__(self, other):
        return isinstance(other, Lab) and (self.i, self.empty) == (other.i, other.empty)

    def __hash__(self):
        return hash((self.i, self.empty))

    def __repr__(self):
        return f"Lab({self.i}{',empty' if self.empty else ''})"

    __str__ = __repr__

    def to_jsonable(self):
        d = super().to_jsonable()
        d.update(i=self.i, empty=self.empty)
        return d

    @classmethod
    def from_dict(cls, d):
        return cls(d["i"], d["empty"])

    def is_atom(self):
        return False

    def minimum_size_of_object(self):
        return 0


class Dummy(Constructor):
    def __init__(self, eqv=True):
        self.eqv = eqv

    def can_be_equivalent(self):
        return self.eqv

    def get_equation(self, lhs_func, rhs_funcs):
        raise NotImplementedError

    def reliance_profile(self, n, **parameters):
        raise NotImplementedError

    def get_terms(self, parent_terms, subterms, n):
        raise NotImplementedError

    def get_sub_objects(self, subobjs, n):
        raise NotImplementedError

    def random_sample_sub_objects(self, *a, **k):
        raise NotImplementedError

    def equiv(self, other, data=None):
        return (isinstance(other, Dummy), None)


class TableStrategy(Strategy):
    def __init__(self, table, idx, empties=()):
        self.table = tuple(tuple(tuple(x) if isinstance(x, list) else x for x in row) for row in table)
        self.idx = idx
        self.empties = tuple(empties)
        super().__init__(ignore_parent=False, inferrable=True, possibly_empty=True, workable=True)

    def _row(self):
        return self.table[self.idx]

    def decomposition_function(self, c):
        p, ch = self._row()[0], self._row()[1]
        if not isinstance(c, Lab) or c.i != p or c.empty:
            return None
        return tuple(Lab(x, x in self.empties) for x in ch)

    def can_be_equivalent(self):
        return bool(self._row()[3])

    def is_two_way(self, c):
        return bool(self._row()[3])

    def is_reversible(self, c):
        return bool(self._row()[4])

    def shifts(self, c, children=None):
        return tuple(self._row()[2])

    def constructor(self, c, children=None):
        return Dummy()

    def reverse_constructor(self, idx, c, children=None):
        return Dummy()

    def backward_map(self, c, objs, children=None):
        raise NotImplementedError

    def forward_map(self, c, obj, children=None):
        raise NotImplementedError

    def formal_step(self):
        return f"row {self.idx}"

    def __repr__(self):
        return f"T{self.idx}"

    @classmethod
    def from_dict(cls, d):
        raise NotImplementedError


class ForeignRows(StrategyFactory):
    """Factory: for the class being expanded, the rules of all rows in which it is a *child*
    (rules whose parent is another class)."""

    def __init__(self, table, empties=()):
        self.table = tuple(tuple(tuple(x) if isinstance(x, list) else x for x in row) for row in table)
        self.empties = tuple(empties)

    def __call__(self, c):
        if not isinstance(c, Lab) or c.empty:
            return
        for idx, row in enumerate(self.table):
            if c.i in row[1] and row[0] != c.i and len(row[1]) > 0:
                yield TableStrategy(self.table, idx, self.empties)(Lab(row[0], row[0] in self.empties))

    def __str__(self):
        return "rows in which the class is a child"

    def __repr__(self):
        return "ForeignRows"

    @classmethod
    def from_dict(cls, d):
        raise NotImplementedError


class TableVer(VerificationStrategy):
    def __init__(self, labels, packs=None):
        self.labels = frozenset(labels)
        # packs: label -> table dict; the pack offered for that verified class
        self.packs = dict(packs or {})
        super().__init__()

    def verified(self, c):
        return isinstance(c, Lab) and c.i in self.labels and not c.empty

    def formal_step(self):
        return "table verified"

    def pack(self, c):
        if isinstance(c, Lab) and c.i in self.packs:
            return build_pack(self.packs[c.i], foreign=bool(self.packs[c.i].get("foreign", True)))
        raise InvalidOperationError("no pack")

    @classmethod
    def from_dict(cls, d):
        raise NotImplementedError

    def __repr__(self):
        return "TableVer"


def random_table(rng, n=None, nrows=None, p_empty=0.15, positive=False):
    """Judged-mode table: unary rows have shift 0; two_way => reversible.  With `positive`
    every child of a row of arity >= 2 has a shift >= 1 (each such rule strictly reduces
    the size): then every cycle among rules passes through a positive shift or consists of
    single-child rules only, so a specification found by *pruning* (which never looks at
    shifts but merges single-child cycles into equivalence classes) must be productive too."""
    n = n or rng.randint(3, 7)
    nrows = nrows or rng.randint(3, 14)
    rows = []
    for _ in range(nrows):
        arity = rng.choice((0, 1, 1, 1, 2, 2, 2, 3))
        parent = rng.randrange(n)
        children = [rng.randrange(n) for _ in range(arity)]
        if arity == 1:
            shifts = [0]
        else:
            shifts = [rng.randint(1 if positive else 0, 2) for _ in range(arity)]
        two_way = arity >= 1 and rng.random() < (0.6 if arity == 1 else 0.3)
        reversible = two_way or (arity >= 1 and rng.random() < 0.3)
        rows.append([parent, children, shifts, bool(two_way), bool(reversible)])
    empties = [x for x in range(n) if rng.random() < p_empty]
    # honesty: a rule that is left with a single non-empty child is an equivalence and
    # must not shift it (a class cannot equal a shifted copy of another one)
    for row in rows:
        nonempty = [i for i, c in enumerate(row[1]) if c not in empties]
        if len(nonempty) == 1:
            row[2][nonempty[0]] = 0
    return {"n": n, "rows": rows, "empties": empties}


def add_one_way_cycle(rng, table):
    """Hostile shape: a directed cycle of single-child rows over 2-4 labels, each edge
    one-way with probability 0.7 (else two-way), inserted at random positions: the rule
    databases must merge it into one equivalence class whatever the arrival order."""
    rows, n = table["rows"], table["n"]
    if n < 2:
        return table
    labs = rng.sample(range(n), min(n, rng.randint(2, 4)))
    for a, b in zip(labs, labs[1:] + labs[:1]):
        tw = rng.random() < 0.3
        rows.insert(rng.randrange(len(rows) + 1), [a, [b], [0], tw, tw or rng.random() < 0.3])
    return table


def add_overlapping_cycles(rng, table, root=0):
    """Hostile shape: one-way single-child rows forming a cycle through `root` plus chords
    inside it (a short cycle and a longer one sharing labels), in random positions: whichever
    cycle the detection merges first, the other closes through an absorbed label."""
    rows, n = table["rows"], table["n"]
    if n < 3:
        return table
    others = [x for x in range(n) if x != root]
    labs = [root] + rng.sample(others, min(len(others), rng.randint(2, 3)))
    edges = list(zip(labs, labs[1:] + labs[:1]))
    for _ in range(rng.randint(1, 2)):
        a, b = rng.sample(labs, 2)
        edges.append((a, b))
    for a, b in edges:
        rows.insert(rng.randrange(len(rows) + 1), [a, [b], [0], False, rng.random() < 0.3])
    return table


def add_cycle_with_common_predecessor(rng, table):
    """Hostile shape: a directed cycle of one-way single-child rows over 2-3 labels and one
    further label with a one-way single-child row to *every* label of the cycle (a depth-first
    cycle detection meets the cycle's labels as siblings), rows in random positions."""
    rows, n = table["rows"], table["n"]
    if n < 3:
        return table
    labs = rng.sample(range(n), min(n, rng.randint(3, 4)))
    pred, cyc = labs[0], labs[1:]
    edges = list(zip(cyc, cyc[1:] + cyc[:1])) + [(pred, c) for c in cyc]
    for a, b in edges:
        rows.insert(rng.randrange(len(rows) + 1), [a, [b], [0], False, rng.random() < 0.3])
    return table


def add_sibling_cycle_gadget(rng, table, root=0):
    """Hostile shape on fresh labels: a cycle c1 -> c2 -> c1 of one-way single-child rows and
    a class P with one-way rows to both, discovered through c1 *after* c2 (so P's rows are
    recorded last and a cycle detection starting from the latest class meets c1 and c2 as
    siblings).  The root gets a further row through c1; c1 also has a size-reducing row."""
    rows, n = table["rows"], table["n"]
    c1, c2, pred, leaf = n, n + 1, n + 2, n + 3
    table["n"] = n + 4
    rows.insert(rng.randrange(len(rows) + 1), [root, [c1, leaf], [1, 1], False, False])
    rows += [[c1, [c2], [0], False, False], [c1, [pred, leaf], [1, 1], False, False],
             [c2, [c1], [0], False, False], [pred, [c1], [0], False, False], [pred, [c2], [0], False, False],
             [leaf, [], [], False, False]]
    return table


def add_twin_unary_rows(rng, table, k=None):
    """Hostile shape for the rule databases: for k unary rows add a twin between the same
    two labels with the opposite two-way flag, in either orientation, at a random position
    (so a one-way single-child rule and a two-way one meet on one pair of classes, in both
    arrival orders).  Tables without a unary row get one first."""
    rows, n = table["rows"], table["n"]
    unary = [r for r in rows if len(r[1]) == 1 and r[1][0] != r[0]]
    if not unary:
        a, b = rng.sample(range(n), 2) if n >= 2 else (0, 0)
        if a == b:
            return table
        two_way = rng.random() < 0.5
        unary = [[a, [b], [0], two_way, two_way or rng.random() < 0.3]]
        rows.insert(rng.randrange(len(rows) + 1), unary[0])
    for _ in range(k or rng.randint(1, 2)):
        p, (c,), _, two_way, _ = rng.choice(unary)
        a, b = (p, c) if rng.random() < 0.5 else (c, p)
        tw = not two_way
        rows.insert(rng.randrange(len(rows) + 1), [a, [b], [0], tw, tw or rng.random() < 0.3])
    return table


def build_pack(table, iterative=False, sets=1, foreign=False):
    rows, empties = table["rows"], table["empties"]
    strats = [TableStrategy(rows, i, empties) for i, r in enumerate(rows) if len(r[1]) > 0]
    if foreign:
        strats.append(ForeignRows(rows, empties))
    packs = {int(k): v for k, v in (table.get("packs") or {}).items()}
    ver = TableVer([r[0] for r in rows if len(r[1]) == 0], packs)
    if sets == 1 or len(strats) < 2:
        exp = [strats]
    else:
        half = len(strats) // 2
        exp = [strats[:half], strats[half:]]
    return StrategyPack(initial_strats=[], inferral_strats=[], expansion_strats=exp,
                        ver_strats=[ver], name="table", iterative=iterative)


def all_packs(table):
    """The pack of a table and, recursively, the packs its verification rows offer."""
    out = [build_pack(table, foreign=bool(table.get("foreign")))]
    for sub in (table.get("packs") or {}).values():
        out.extend(build_pack(t, foreign=bool(t.get("foreign", True))) for t in _subtables(sub))
    return out


def _subtables(t):
    yield t
    for sub in (t.get("packs") or {}).values():
        yield from _subtables(sub)


def complement_universe(rng):
    """A universe in which expanding a verified class succeeds only through a reverse rule.

    Root 0 -> (V_1, X_1, ..., W?) ; each V_i is verified and offers a pack whose only way
    to V_i is the row  X_i -> (V_i, A_i)  read backwards (V_i = X_i - A_i), X_i being a
    plain verified class of the specification and A_i verified by the offered pack.  With
    `via_reverse` the root has a further child W that the original search itself can only
    obtain through a reverse rule (row Z -> (W, B)), so that - under the forest database -
    the specification to be expanded already contains a reverse rule.  Some V_i also get a
    forward row in their pack (no retry needed for those)."""
    k = rng.randint(1, 3)
    via_reverse = rng.random() < 0.5
    nxt = [1]

    def fresh():
        nxt[0] += 1
        return nxt[0] - 1

    rows, packs = [], {}
    kids = []
    for _ in range(k):
        v, x, a = fresh(), fresh(), fresh()
        sh = rng.choice((0, 0, 1))
        sub_rows = [[x, [v, a], [0, sh], False, True], [a, [], [], False, False]]
        if rng.random() < 0.3:
            # the row to be read backwards is itself a rule of the specification being expanded
            # (X -> (V, A) is how the original search reached V) and the offered pack finds it
            # again, together with another row that enumerates X (V is a child of the root as
            # well: a new rule for X does not make it dispensable)
            kids += [x, v]
            rows += [[v, [], [], False, False], [a, [], [], False, False], [x, [v, a], [0, sh], False, True]]
            zbad, p_, q_ = fresh(), fresh(), fresh()
            sub_rows += [[v, [zbad, x], [1, 0], False, False], [x, [p_, q_], [0, 1], False, False],
                         [p_, [], [], False, False], [q_, [], [], False, False]]
            rng.shuffle(sub_rows)
            packs[v] = {"n": nxt[0], "rows": sub_rows, "empties": [], "foreign": rng.random() < 0.5}
            continue
        kids += [v, x]
        rows.append([v, [], [], False, False])
        rows.append([x, [], [], False, False])
        indirect = rng.random() < 0.4
        if indirect:
            # the row about X is only found by expanding X itself (no foreign-row factory): V's own
            # row leads to X and to a class the pack can never enumerate; X is already enumerable
            # from the specification when that row is recorded, and must be expanded all the same
            zbad = fresh()
            sub_rows.append([v, [zbad, x], [1, 0], False, False])
        if rng.random() < 0.25 and not indirect:
            f = fresh()
            sub_rows += [[v, [a, f], [0, 1], False, rng.random() < 0.5], [f, [], [], False, False]]
        if rng.random() < 0.4:  # a distractor row about classes that do not matter
            d1, d2 = fresh(), fresh()
            sub_rows.append([d1, [d2, a], [0, 0], False, True])
        rng.shuffle(sub_rows)
        packs[v] = {"n": nxt[0], "rows": sub_rows, "empties": [], "foreign": not indirect}
    if rng.random() < 0.3:
        # equivalence chains: A = H = C in the specification (H hidden inside the path), and a
        # verified class whose pack says V = H: after the expansion two chains run through H
        a_, h_, c_, v_ = fresh(), fresh(), fresh(), fresh()
        kids += [a_, v_]
        rows += [[a_, [h_], [0], True, True], [h_, [c_], [0], True, True], [c_, [], [], False, False],
                 [v_, [], [], False, False]]
        packs[v_] = {"n": nxt[0], "rows": [[v_, [h_], [0], True, True], [h_, [c_], [0], True, True],
                                           [c_, [], [], False, False]], "empties": [], "foreign": False}
    if via_reverse:
        w, z, b = fresh(), fresh(), fresh()
        kids += [w, z]  # Z is a child of the root too, so that the search meets (and verifies) it
        rows += [[z, [w, b], [0, 0], False, True], [z, [], [], False, False], [b, [], [], False, False]]
    rng.shuffle(kids)
    if len(kids) > 3 and rng.random() < 0.5:  # a chain instead of one wide rule
        mid = fresh()
        rows.append([0, kids[:2] + [mid], [0] * 3, False, rng.random() < 0.5])
        rows.append([mid, kids[2:], [0] * len(kids[2:]), False, rng.random() < 0.5])
    else:
        rows.append([0, kids, [0] * len(kids), False, rng.random() < 0.5])
    rng.shuffle(rows)
    return {"n": nxt[0], "rows": rows, "empties": [], "packs": {str(k_): v_ for k_, v_ in packs.items()},
            "foreign": via_reverse, "via_reverse": via_reverse, "k": k}
