"""A second module defining a combinatorial class under a name that vuniv.words uses as well
(two libraries, a vendored copy, a test module re-defining a class): JSON records the module
*and* the name of a class, and loading must give back this class, not its namesake."""
from vuniv import words


class WC(words.WC):
    """vuniv.words.WC again - same behaviour, same __name__, another module (instances of the
    two never compare equal: equality of word classes includes the type)."""
