"""W6: finite languages over {a, b}.

Every class is a finite set of words, atoms are the singletons; strategies split a language by
first letter, by last letter or into its shortest words and the rest, factor out a common first
or last letter, and the symmetries exchange the two letters or reverse every word.  All of them
are honest bijections and the truth is the set itself.  Classes have several competing rules and
the two symmetries merge classes in different ways, which is what the parallel finder has to
cope with.  (The universe is the one a sub-agent built for its demonstration of a seeded change
to the finder; it found failures of the unchanged finder there, since repaired - fix 5f70813.)"""
from comb_spec_searcher import (
    AtomStrategy,
    CartesianProductStrategy,
    CombinatorialClass,
    CombinatorialObject,
    CombinatorialSpecificationSearcher,
    DisjointUnionStrategy,
    StrategyPack,
    SymmetryStrategy,
)


class FW(str, CombinatorialObject):
    def size(self):
        return str.__len__(self)


class FinLang(CombinatorialClass[FW]):
    def __init__(self, words):
        self.words = frozenset(words)
        super().__init__()

    def is_empty(self):
        return not self.words

    def is_atom(self):
        return len(self.words) == 1

    def minimum_size_of_object(self):
        return min(map(len, self.words))

    def objects_of_size(self, n, **parameters):
        for w in sorted(self.words):
            if len(w) == n:
                yield FW(w)

    def to_jsonable(self):
        d = super().to_jsonable()
        d["words"] = sorted(self.words)
        return d

    @classmethod
    def from_dict(cls, d):
        return cls(d["words"])

    def __eq__(self, other):
        return isinstance(other, FinLang) and self.words == other.words

    def __hash__(self):
        return hash(self.words)

    def __repr__(self):
        return f"FinLang({sorted(self.words)})"

    def __str__(self):
        return "{" + ",".join(w or "e" for w in sorted(self.words)) + "}"


class _Named:
    def formal_step(self):
        return type(self).__name__

    def __repr__(self):
        return type(self).__name__ + "()"

    def __str__(self):
        return type(self).__name__

    @classmethod
    def from_dict(cls, d):
        return cls()


class SplitFirst(_Named, DisjointUnionStrategy):
    """L = (L & {e}) + (L & a..) + (L & b..)"""

    def decomposition_function(self, c):
        if len(c.words) < 2:
            return None
        return (FinLang(w for w in c.words if w == ""), FinLang(w for w in c.words if w[:1] == "a"),
                FinLang(w for w in c.words if w[:1] == "b"))

    def forward_map(self, c, obj, children=None):
        i = 0 if obj == "" else (1 if obj[0] == "a" else 2)
        return tuple(obj if j == i else None for j in range(3))


class SplitLast(_Named, DisjointUnionStrategy):
    """L = (L & {e}) + (L & ..a) + (L & ..b)"""

    def decomposition_function(self, c):
        if len(c.words) < 2:
            return None
        return (FinLang(w for w in c.words if w == ""), FinLang(w for w in c.words if w[-1:] == "a"),
                FinLang(w for w in c.words if w[-1:] == "b"))

    def forward_map(self, c, obj, children=None):
        i = 0 if obj == "" else (1 if obj[-1] == "a" else 2)
        return tuple(obj if j == i else None for j in range(3))


class SplitShort(_Named, DisjointUnionStrategy):
    """L = (shortest words of L) + (the other words of L)"""

    def decomposition_function(self, c):
        if len(c.words) < 2:
            return None
        m = min(map(len, c.words))
        return (FinLang(w for w in c.words if len(w) == m), FinLang(w for w in c.words if len(w) > m))

    def forward_map(self, c, obj, children=None):
        m = min(map(len, c.words))
        return (obj, None) if len(obj) == m else (None, obj)


class FactorFirst(_Named, CartesianProductStrategy):
    """x L' = {x} x L'"""

    def __init__(self):
        super().__init__(ignore_parent=False)

    def decomposition_function(self, c):
        if len(c.words) < 2 or "" in c.words:
            return None
        firsts = {w[0] for w in c.words}
        if len(firsts) != 1:
            return None
        return (FinLang(firsts), FinLang(w[1:] for w in c.words))

    def forward_map(self, c, obj, children=None):
        return (FW(obj[0]), FW(obj[1:]))

    def backward_map(self, c, objs, children=None):
        yield FW(objs[0] + objs[1])


class FactorLast(_Named, CartesianProductStrategy):
    """L' x = L' x {x}"""

    def __init__(self):
        super().__init__(ignore_parent=False)

    def decomposition_function(self, c):
        if len(c.words) < 2 or "" in c.words:
            return None
        lasts = {w[-1] for w in c.words}
        if len(lasts) != 1:
            return None
        return (FinLang(w[:-1] for w in c.words), FinLang(lasts))

    def forward_map(self, c, obj, children=None):
        return (FW(obj[:-1]), FW(obj[-1]))

    def backward_map(self, c, objs, children=None):
        yield FW(objs[0] + objs[1])


def _comp(w):
    return w.translate(str.maketrans("ab", "ba"))


class Comp(_Named, SymmetryStrategy):
    """Exchange the two letters."""

    def decomposition_function(self, c):
        return (FinLang(_comp(w) for w in c.words),)

    def forward_map(self, c, obj, children=None):
        return (FW(_comp(obj)),)

    def backward_map(self, c, objs, children=None):
        yield FW(_comp(objs[0]))


class Rev(_Named, SymmetryStrategy):
    """Reverse every word."""

    def decomposition_function(self, c):
        return (FinLang(w[::-1] for w in c.words),)

    def forward_map(self, c, obj, children=None):
        return (FW(obj[::-1]),)

    def backward_map(self, c, objs, children=None):
        yield FW(objs[0][::-1])


EXP = {"sf": SplitFirst, "sl": SplitLast, "ss": SplitShort, "ff": FactorFirst, "fl": FactorLast}
SYM = {"c": Comp, "r": Rev}


def make_pack(exp, sym):
    return StrategyPack(initial_strats=[], inferral_strats=[], expansion_strats=[[EXP[e]() for e in exp]],
                        ver_strats=[AtomStrategy()], symmetries=[SYM[s]() for s in sym],
                        name="finite languages " + ",".join(exp) + "/" + ",".join(sym))


def make_searcher(words, exp, sym):
    return CombinatorialSpecificationSearcher(FinLang(words), make_pack(exp, sym))


def rand_side(rng):
    exp = [e for e in ("sf", "sl", "ss", "ff", "fl") if rng.random() < 0.7] or ["sf"]
    if "sf" not in exp and "sl" not in exp and "ss" not in exp:
        exp.append(rng.choice(("sf", "sl")))
    rng.shuffle(exp)  # the order of the strategies decides the numbering of the classes
    sym = [s for s in ("c", "r") if rng.random() < 0.5]
    rng.shuffle(sym)
    return {"exp": exp, "sym": sym}


def rand_language(rng):
    shape = rng.random()
    if shape < 0.5:
        n = rng.choice((3, 4, 4))
        pool = ["".join(rng.choice("ab") for _ in range(n)) for _ in range(rng.randint(4, 14))]
    else:
        pool = ["".join(rng.choice("ab") for _ in range(rng.randint(1, 4))) for _ in range(rng.randint(3, 16))]
    return sorted(set(pool))
