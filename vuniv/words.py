"""W1: words with statistics – the universe the engine is pointed at.

Class  WC(prefix, patterns, alphabet, just_prefix, stats): the words over `alphabet`
that start with `prefix` and avoid the consecutive `patterns` (or, with just_prefix, only
the word `prefix` itself), carrying named statistics  k = number of letters from a letter
set.  WCB is the same class with to_bytes/from_bytes (compressed ClassDB path).

Ground truth never comes from here: the oracles (vref.words) recompute everything from
the class *descriptor* by brute force.  Every strategy below is an honest combinatorial
rule; C09 re-checks that against brute force on every run.

Randomness of the samplers goes through the module attribute `random`, which the
harness replaces by a scripted source.
"""
import itertools
import json
import random  # noqa: F401  (replaced by vmon.rng when sampling is enumerated)
from collections import Counter, defaultdict

import sympy

from comb_spec_searcher import (
    AtomStrategy,
    CartesianProductStrategy,
    CombinatorialClass,
    CombinatorialObject,
    DisjointUnionStrategy,
    StrategyFactory,
    StrategyPack,
    SymmetryStrategy,
    VerificationStrategy,
)
from comb_spec_searcher.exception import InvalidOperationError, StrategyDoesNotApply
from comb_spec_searcher.strategies.constructor import Constructor
from comb_spec_searcher.strategies.rule import NonBijectiveRule
from comb_spec_searcher.strategies.strategy import Strategy


class W(str, CombinatorialObject):
    def size(self):
        return str.__len__(self)


def brute(alphabet, prefix, patterns, just_prefix, n, proper=False):
    if just_prefix:
        if n == len(prefix) and not any(p in prefix for p in patterns):
            yield W(prefix)
        return
    if len(prefix) > n or (proper and len(prefix) == n):
        return
    for letters in itertools.product(alphabet, repeat=n - len(prefix)):
        w = prefix + "".join(letters)
        if all(p not in w for p in patterns):
            yield W(w)


class WC(CombinatorialClass[W]):
    def __init__(self, prefix, patterns, alphabet, just_prefix=False, stats=(), proper=False, right=None, flags="",
                 lazymin=False):
        # right: None, or a second word class; then this class is the set of *pairs*
        # u|v (u in the class described by the other fields, v in `right`, '|' a separator
        # counted as one letter), i.e. a product of two non-trivial factors
        self.alphabet = tuple(sorted(alphabet))
        self.prefix = W(prefix)
        self.patterns = tuple(sorted(set(map(W, patterns))))
        self.just_prefix = bool(just_prefix)
        self.stats = tuple(sorted((str(k), "".join(sorted(set(v)))) for k, v in stats))
        # proper: only the words strictly longer than the prefix ("C+(p)")
        self.proper = bool(proper) and not self.just_prefix
        if right is not None:
            if isinstance(right, dict):
                right = WC.from_descriptor(dict(right, bytes=isinstance(self, WCB),
                                                 hash="coarse" if isinstance(self, _CoarseHash) else None,
                                                 mixed=isinstance(self, WCM)))
            right = right.with_(stats=self.stats)
            assert right.right is None, "pairs do not nest"
        self.right = right
        # flags: the words of the class each preceded by one of these letters (not in the
        # alphabet, counted by no statistic): m copies of every word.  Only the Unflag rule
        # applies to such a class; its backward map has m pre-images per word.
        self.flags = "".join(sorted(set(flags or ""))) if (right is None and not self.just_prefix) else ""
        # lazymin: minimum_size_of_object reports only 1 (or 0) - a valid lower bound, which the
        # library's docstring allows ("you must at least return 1") - instead of the exact minimum
        self.lazymin = bool(lazymin) and not self.just_prefix

    # -- required by the engine
    def _bad(self, word):
        return any(p in word for p in self.patterns)

    def left_part(self):
        return self.with_(right=None)

    def is_empty(self):
        if self.right is not None and self.right.is_empty():
            return True
        if self._bad(self.prefix):
            return True
        if self.proper:
            return all(self._bad(self.prefix + a) for a in self.alphabet)
        return False

    def _key(self):
        return (self.alphabet, self.prefix, self.patterns, self.just_prefix, self.stats, self.proper,
                None if self.right is None else self.right._key(), self.flags, self.lazymin)

    def __eq__(self, other):
        if not isinstance(other, WC):
            return NotImplemented
        return type(self) is type(other) and self._key() == other._key()

    def __hash__(self):
        return hash(self._key())

    def __repr__(self):
        return (f"{type(self).__name__}({str(self.prefix)!r},{list(map(str, self.patterns))!r},"
                f"{''.join(self.alphabet)!r},{self.just_prefix},{list(self.stats)!r}"
                f"{',proper' if self.proper else ''}"
                f"{'' if self.right is None else ',right=' + repr(self.right)}"
                f"{',flags=' + repr(self.flags) if self.flags else ''}{',lazymin' if self.lazymin else ''})")

    def __str__(self):
        st = " " + ",".join(f"{k}=#{v}" for k, v in self.stats) if self.stats else ""
        if self.right is not None:
            return f"[{self.left_part()}] | [{self.right}]"
        if self.just_prefix:
            return f"word '{self.prefix}'{st}"
        plus = "+" if self.proper else ""
        if self.flags:
            return f"{{{','.join(self.flags)}}} . [{self.with_(flags='')}]"
        return f"{{{','.join(self.alphabet)}}}* av {{{','.join(self.patterns)}}} pre{plus} '{self.prefix}'{st}"

    def descriptor(self):
        return {"prefix": str(self.prefix), "patterns": [str(p) for p in self.patterns],
                "alphabet": "".join(self.alphabet), "just_prefix": self.just_prefix,
                "stats": [list(s) for s in self.stats], "bytes": isinstance(self, WCB),
                "proper": self.proper,
                "hash": "coarse" if isinstance(self, _CoarseHash) else None,
                "flags": self.flags, "lazymin": self.lazymin, "mixed": isinstance(self, WCM),
                "right": None if self.right is None else self.right.descriptor()}

    @staticmethod
    def from_descriptor(d):
        cls = WCB if d.get("bytes") else WC
        if d.get("bytes") and d.get("mixed"):
            cls = WCMA if d["just_prefix"] else WCM
        if d.get("hash") == "coarse":
            cls = WCBH if d.get("bytes") else WCH
        if d.get("twin") and cls is WC:
            from vuniv import words_twin  # pylint: disable=import-outside-toplevel

            cls = words_twin.WC
        right = d.get("right")
        if right is not None:
            right = WC.from_descriptor(dict(right, bytes=bool(d.get("bytes")), hash=d.get("hash"),
                                             mixed=d.get("mixed"), twin=d.get("twin")))
        return cls(d["prefix"], d["patterns"], d["alphabet"], d["just_prefix"],
                   [tuple(s) for s in d["stats"]], d.get("proper", False), right, d.get("flags") or "",
                   bool(d.get("lazymin")))

    def to_jsonable(self):
        d = super().to_jsonable()
        d.update(prefix=str(self.prefix), patterns=[str(p) for p in self.patterns],
                 alphabet=list(self.alphabet), just_prefix=int(self.just_prefix),
                 stats=[list(s) for s in self.stats], proper=int(self.proper),
                 right=None if self.right is None else self.right.to_jsonable(), flags=self.flags,
                 lazymin=int(self.lazymin))
        return d

    @classmethod
    def from_dict(cls, d):
        right = d.get("right")
        if right is not None:
            right = cls.from_dict(right)
        return cls(d["prefix"], d["patterns"], d["alphabet"], bool(d["just_prefix"]),
                   [tuple(s) for s in d["stats"]], bool(d.get("proper", 0)), right, d.get("flags") or "",
                   bool(d.get("lazymin", 0)))

    # -- counting support
    @property
    def extra_parameters(self):
        return tuple(k for k, _ in self.stats)

    # sided statistics (pair classes only): letters marked '<' are counted in the left word of a
    # pair u|v only, letters marked '>' in the right word only (no mark: in both)
    @staticmethod
    def _count(letters, word):
        if "|" in word and ("<" in letters or ">" in letters):
            u, v = word.split("|", 1)
            word = u if "<" in letters else v
        return sum(1 for c in word if c in letters)

    def stat_value(self, name, word):
        return self._count(dict(self.stats)[name], word)

    def get_parameters(self, obj):
        return tuple(self._count(letters, obj) for _, letters in self.stats)

    def get_minimum_value(self, parameter):
        if self.right is not None:
            letters = dict(self.stats)[parameter]
            left = 0 if ">" in letters else self.left_part().get_minimum_value(parameter)
            right = 0 if "<" in letters else self.right.get_minimum_value(parameter)
            return left + right
        base_value = self.stat_value(parameter, self.prefix)
        if self.proper:
            letters = dict(self.stats)[parameter]
            ok = [a for a in self.alphabet if not self._bad(self.prefix + a)]
            if ok and all(a in letters for a in ok):
                return base_value + 1
        return base_value

    def possible_parameters(self, n):
        seen = set()
        for w in self.objects_of_size(n):
            p = self.get_parameters(w)
            if p not in seen:
                seen.add(p)
                yield dict(zip(self.extra_parameters, p))

    def is_atom(self):
        return self.just_prefix and self.right is None

    def minimum_size_of_object(self):
        own = len(self.prefix) + (1 if self.proper else 0) + (1 if self.flags else 0)
        if self.right is not None:
            own = own + 1 + self.right.minimum_size_of_object()
        return min(own, 1) if self.lazymin else own

    def _all_objects(self, n):
        if self.flags:
            if n >= 1:
                for w in self.with_(flags="")._all_objects(n - 1):
                    for f in self.flags:
                        yield W(f + w)
            return
        if self.right is None:
            yield from brute(self.alphabet, self.prefix, self.patterns, self.just_prefix, n, self.proper)
            return
        for i in range(n):
            lefts = list(brute(self.alphabet, self.prefix, self.patterns, self.just_prefix, i, self.proper))
            if not lefts:
                continue
            rights = list(self.right._all_objects(n - 1 - i))
            for u in lefts:
                for v in rights:
                    yield W(u + "|" + v)

    def objects_of_size(self, n, **parameters):
        for w in self._all_objects(n):
            if parameters and any(self.stat_value(k, w) != v for k, v in parameters.items()):
                continue
            yield w

    def with_(self, **kw):
        d = dict(prefix=self.prefix, patterns=self.patterns, alphabet=self.alphabet,
                 just_prefix=self.just_prefix, stats=self.stats, proper=self.proper, right=self.right,
                 flags=self.flags, lazymin=self.lazymin)
        d.update(kw)
        if d["just_prefix"]:
            d["proper"] = False
        return type(self)(**d)


class WCB(WC):
    """Same class, stored compressed in the ClassDB."""

    def to_bytes(self):
        return json.dumps([str(self.prefix), [str(p) for p in self.patterns],
                           "".join(self.alphabet), self.just_prefix,
                           [list(s) for s in self.stats], self.proper,
                           None if self.right is None else self.right.to_bytes().decode(), self.flags,
                           self.lazymin]).encode()

    @classmethod
    def from_bytes(cls, b):
        p, pats, al, jp, st, pr, right, flags, lazymin = json.loads(b.decode())
        if right is not None:
            right = cls.from_bytes(right.encode())
        return cls(p, pats, al, jp, [tuple(s) for s in st], pr, right, flags, lazymin)


class WCM(WCB):
    """A mixed family: the classes are stored compressed, except the atoms, which are of a
    subclass without to_bytes (one class database then holds compressed and raw keys)."""

    def with_(self, **kw):
        d = dict(prefix=self.prefix, patterns=self.patterns, alphabet=self.alphabet,
                 just_prefix=self.just_prefix, stats=self.stats, proper=self.proper, right=self.right,
                 flags=self.flags, lazymin=self.lazymin)
        d.update(kw)
        if d["just_prefix"]:
            d["proper"] = False
            return WCMA(**d)
        return WCM(**d)


class WCMA(WCM):
    """Atoms of the mixed family: they opt out of compression."""

    def to_bytes(self):
        raise NotImplementedError("atoms are kept as they are")


class _CoarseHash:
    """Equality as usual, but the hash sees only the length of the prefix and the atom
    flag: many unequal classes share a hash (legitimate for a value object; dictionaries
    and anything keyed by hash must still tell them apart)."""

    def __hash__(self):
        return hash((len(self.prefix), self.just_prefix))


class WCH(_CoarseHash, WC):
    pass


class WCBH(_CoarseHash, WCB):
    pass


def atom_stats(cls, word, drop):
    if not drop:
        return cls.stats
    return tuple((k, letters) for k, letters in cls.stats if any(c in letters for c in word))


def dead_stats(c):
    """Names of the statistics that are 0 on every word of the class, decided exactly: the
    prefix has none of their letters and no letter of theirs can ever be appended (search
    over the automaton whose states are the last m-1 letters, m the longest pattern)."""
    if c.just_prefix or c.right is not None or c.flags or c.is_empty():
        return ()
    m = max((len(p) for p in c.patterns), default=1)
    keep = max(m - 1, 0)

    def ok(state, x):
        w = state + x
        return not any(w.endswith(p) for p in c.patterns)

    start = c.prefix[len(c.prefix) - keep:] if keep else ""
    if len(c.prefix) < keep:
        start = c.prefix
    seen, todo, usable = {start}, [start], set()
    while todo:
        st = todo.pop()
        for x in c.alphabet:
            if ok(st, x):
                usable.add(x)
                nxt = (st + x)[-keep:] if keep else ""
                if nxt not in seen:
                    seen.add(nxt)
                    todo.append(nxt)
    return tuple(k for k, letters in c.stats
                 if not any(ch in letters for ch in c.prefix) and not any(x in letters for x in usable))


def shed_dead(c):
    dead = dead_stats(c)
    return c.with_(stats=[(k, l) for k, l in c.stats if k not in dead]) if dead else c


class _Opts:
    """Mixin: strategy options live in attributes (compared by AbstractStrategy.__eq__)
    and travel through to_jsonable/from_dict."""

    OPTS = ()

    def to_jsonable(self):
        d = super().to_jsonable()
        for k in self.OPTS:
            d[k] = getattr(self, k)
        return d

    @classmethod
    def from_dict(cls, d):
        return cls(**d)

    def __repr__(self):
        return f"{type(self).__name__}({', '.join(f'{k}={getattr(self, k)!r}' for k in self.OPTS)})"

    def __str__(self):
        return self.formal_step()


class Expand(_Opts, DisjointUnionStrategy[WC, W]):
    """C(p) = {p} + sum over letters a of C(p a);   C+(p) = sum over letters a of C(p a).
    With plus=True the first step is split in two:  C(p) = {p} + C+(p)."""

    OPTS = ("drop", "order", "plus", "dead")

    def __init__(self, drop=False, order=0, plus=False, dead=False, **kw):
        self.drop, self.order, self.plus = bool(drop), int(order), bool(plus)
        # dead: a non-atom child sheds the statistics that are 0 on all of its words, so the
        # union has children that do not carry some of the parent's parameters
        self.dead = bool(dead)
        super().__init__(**kw)

    def decomposition_function(self, c):
        if c.just_prefix or c.right is not None or c.flags:
            return None
        letters = c.alphabet if self.order != 1 else c.alphabet[::-1]
        extensions = [c.with_(prefix=c.prefix + a, proper=False) for a in letters]
        if self.dead:
            extensions = [shed_dead(e) for e in extensions]
        if c.proper:
            return tuple(extensions)
        kids = [c.with_(just_prefix=True, stats=atom_stats(c, c.prefix, self.drop))]
        kids += [shed_dead(c.with_(proper=True)) if self.dead else c.with_(proper=True)] if self.plus else extensions
        if self.order == 2:
            kids = kids[1:] + kids[:1]
        return tuple(kids)

    def extra_parameters(self, c, children=None):
        if children is None:
            children = self.decomposition_function(c)
            if children is None:
                raise StrategyDoesNotApply("Strategy does not apply")
        return tuple({k: k for k in ch.extra_parameters} for ch in children)

    def formal_step(self):
        return f"expand(drop={self.drop},order={self.order},plus={self.plus},dead={self.dead})"

    def forward_map(self, c, word, children=None):
        if children is None:
            children = self.decomposition_function(c)
        res = [None] * len(children)
        for i, ch in enumerate(children):
            if ch.just_prefix:
                if len(word) == len(c.prefix):
                    res[i] = word
                    break
            elif len(word) > len(c.prefix) and word[: len(ch.prefix)] == ch.prefix:
                res[i] = word
                break
        return tuple(res)


class ExpandTwice(_Opts, DisjointUnionStrategy[WC, W]):
    """C(p) = {p} + sum_{a != x} C(p a) + {p x} + sum_a C(p x a): the expansion with the letter
    x = alphabet[which] expanded once more.  In a pack next to Expand it gives classes several
    rules to choose from (several candidate specifications per universe)."""

    OPTS = ("which", "drop")

    def __init__(self, which=0, drop=False, **kw):
        self.which, self.drop = int(which), bool(drop)
        super().__init__(**kw)

    def decomposition_function(self, c):
        if c.just_prefix or c.right is not None or c.proper or c.flags:
            return None
        x = c.alphabet[self.which % len(c.alphabet)]
        kids = [c.with_(just_prefix=True, stats=atom_stats(c, c.prefix, self.drop))]
        kids += [c.with_(prefix=c.prefix + a) for a in c.alphabet if a != x]
        kids.append(c.with_(prefix=c.prefix + x, just_prefix=True, stats=atom_stats(c, c.prefix + x, self.drop)))
        kids += [c.with_(prefix=c.prefix + x + a) for a in c.alphabet]
        return tuple(kids)

    def extra_parameters(self, c, children=None):
        if children is None:
            children = self.decomposition_function(c)
            if children is None:
                raise StrategyDoesNotApply("Strategy does not apply")
        return tuple({k: k for k in ch.extra_parameters} for ch in children)

    def formal_step(self):
        return f"expand twice(which={self.which},drop={self.drop})"

    def forward_map(self, c, word, children=None):
        if children is None:
            children = self.decomposition_function(c)
        res = [None] * len(children)
        best = None
        for i, ch in enumerate(children):
            if ch.just_prefix:
                if word == ch.prefix:
                    best = i
                    break
            elif word[: len(ch.prefix)] == ch.prefix and (best is None or len(ch.prefix) > len(children[best].prefix)):
                best = i
        res[best] = word
        return tuple(res)


def safe_index(c):
    """Length of the part of the prefix that can take part in no occurrence reaching
    beyond the prefix (class assumed non-empty)."""
    m = max((len(p) for p in c.patterns), default=1)
    safe = max(0, len(c.prefix) - m + 1)
    for i in range(safe, len(c.prefix)):
        end = c.prefix[i:]
        if any(end == p[: len(end)] for p in c.patterns):
            break
        safe = i + 1
    return safe


class RemoveFront(_Opts, CartesianProductStrategy[WC, W]):
    """C(u v) = {u} x C(v) when no occurrence can start inside u; with split the atom u is
    cut once more (first letter | rest), with atom_last the factor C(v) comes first."""

    OPTS = ("drop", "atom_last", "split", "swap", "merge")

    def __init__(self, drop=False, atom_last=False, split=False, swap=False, merge=False, **kw):
        self.drop, self.atom_last, self.split = bool(drop), bool(atom_last), bool(split)
        # merge: the non-atom factor keeps one statistic per letter set; all parent statistics
        # with that letter set map onto it (several parent parameters on one child parameter)
        self.merge = bool(merge) and not bool(swap)
        # swap: the atoms carry the first two statistics under exchanged names, so that the
        # parent -> child parameter maps of a product are not the identity
        self.swap = bool(swap)
        super().__init__(**kw)

    def _atom_groups(self, c, word):
        """merge: statistics that agree on the letters of the atom collapse onto the first of
        them (they may differ elsewhere: several parent parameters share one parameter of this
        factor although their values on whole words differ)."""
        plan, first = {}, {}
        for k, letters in atom_stats(c, word, self.drop):
            r = "".join(sorted(set(letters) & set(word)))
            first.setdefault(r, k)
            plan[k] = first[r]
        return plan

    def _atom_stats(self, c, word):
        stats = list(atom_stats(c, word, self.drop))
        if self.merge:
            plan = self._atom_groups(c, word)
            return [(k, l) for k, l in stats if plan[k] == k]
        if self.swap and len(c.stats) >= 2 and len(stats) == len(c.stats):
            (k0, l0), (k1, l1) = stats[0], stats[1]
            stats[0], stats[1] = (k0, l1), (k1, l0)
        return stats

    def _atom_map(self, c, child):
        if self.merge:
            return self._atom_groups(c, child.prefix)
        if self.swap and len(c.stats) >= 2 and len(child.stats) == len(c.stats):
            names = [k for k, _ in c.stats]
            m = {k: k for k in names}
            m[names[0]], m[names[1]] = names[1], names[0]
            return m
        return {k: k for k in child.extra_parameters}

    def _pieces(self, c):
        s = safe_index(c)
        if s <= 0:
            return None
        u, v = c.prefix[:s], c.prefix[s:]
        atoms = [u[:1], u[1:]] if self.split and len(u) >= 2 else [u]
        return atoms, v

    def decomposition_function(self, c):
        if c.just_prefix or c.right is not None or c.flags or c.is_empty():
            return None
        pieces = self._pieces(c)
        if pieces is None:
            return None
        atoms, v = pieces
        kids = [c.with_(prefix=a, just_prefix=True, stats=self._atom_stats(c, a)) for a in atoms]
        rest = c.with_(prefix=v)
        if self.merge:
            plan = MergeStats._plan(c)
            rest = rest.with_(stats=[(k, l) for k, l in c.stats if plan[k] == k])
        return tuple([rest] + kids) if self.atom_last else tuple(kids + [rest])

    def extra_parameters(self, c, children=None):
        if children is None:
            children = self.decomposition_function(c)
            if children is None:
                raise StrategyDoesNotApply("Strategy does not apply")
        plan = MergeStats._plan(c) if self.merge else None
        return tuple(self._atom_map(c, ch) if ch.just_prefix
                     else (dict(plan) if plan is not None else {k: k for k in ch.extra_parameters})
                     for ch in children)

    def formal_step(self):
        return (f"remove front(drop={self.drop},atom_last={self.atom_last},split={self.split},"
                f"swap={self.swap},merge={self.merge})")

    def backward_map(self, c, objs, children=None):
        objs = list(objs)
        if self.atom_last:
            objs = objs[1:] + objs[:1]
        yield W("".join(objs))

    def forward_map(self, c, word, children=None):
        atoms, _ = self._pieces(c)
        parts, pos = [], 0
        for a in atoms:
            parts.append(W(word[pos: pos + len(a)]))
            pos += len(a)
        parts.append(W(word[pos:]))
        if self.atom_last:
            parts = parts[-1:] + parts[:-1]
        return tuple(parts)


class SplitPair(_Opts, CartesianProductStrategy[WC, W]):
    """[A] | [B]  =  A x {'|'} x B : a product with two non-trivial factors (several
    compositions of a size), the separator being an atom without statistics."""

    OPTS = ("bar_first", "merge")

    def __init__(self, bar_first=False, merge=False, **kw):
        self.bar_first = bool(bar_first)
        # merge: in a factor some letters may be forbidden outright (single-letter patterns);
        # statistics that agree on the letters the factor can use collapse onto the first of
        # them there - several parent parameters share one parameter of a *non-atom* factor
        # although they differ on the other factor
        self.merge = bool(merge)
        super().__init__(**kw)

    def _plan(self, part):
        usable = set(part.alphabet) - {p for p in part.patterns if len(p) == 1}
        plan, first = {}, {}
        for k, letters in part.stats:
            r = "".join(sorted(set(letters) & usable))
            first.setdefault(r, k)
            plan[k] = first[r]
        return plan

    @staticmethod
    def _sided(c):
        return any("<" in l or ">" in l for _, l in c.stats)

    @staticmethod
    def _side_plan(c, mark):
        """Parent statistic -> statistic of the factor on the side `mark` ('<' or '>'): the
        statistics counted on that side, named after their letters (so that two equal words
        classes on the two sides are one class with one statistic list, reached by different
        parent statistics)."""
        other = ">" if mark == "<" else "<"
        return {k: "u_" + l.replace(mark, "") for k, l in c.stats if other not in l}

    def _side_part(self, c, part, mark):
        plan = self._side_plan(c, mark)
        letters = {k: l.replace(mark, "") for k, l in c.stats if k in plan}
        return part.with_(stats=sorted({(plan[k], letters[k]) for k in plan}))

    def _part(self, part):
        if not self.merge:
            return part
        plan = self._plan(part)
        return part.with_(stats=[(k, l) for k, l in part.stats if plan[k] == k])

    @staticmethod
    def _bar(c):
        # the separator atom, of the same class family as c (plain / compressed / mixed)
        return c.with_(prefix="|", patterns=(), alphabet=tuple(c.alphabet) + ("|",), just_prefix=True, stats=(),
                       proper=False, right=None, flags="")

    def decomposition_function(self, c):
        if c.right is None or c.is_empty():
            return None
        if self._sided(c):
            kids = [self._side_part(c, c.left_part(), "<"), self._bar(c), self._side_part(c, c.right, ">")]
        else:
            kids = [self._part(c.left_part()), self._bar(c), self._part(c.right)]
        if self.bar_first:
            kids = [kids[1], kids[0], kids[2]]
        return tuple(kids)

    def extra_parameters(self, c, children=None):
        if children is None:
            children = self.decomposition_function(c)
            if children is None:
                raise StrategyDoesNotApply("Strategy does not apply")
        if self._sided(c):
            maps = [self._side_plan(c, "<"), {}, self._side_plan(c, ">")]
            if self.bar_first:
                maps = [maps[1], maps[0], maps[2]]
            return tuple(maps)
        if not self.merge:
            return tuple({k: k for k in ch.extra_parameters} for ch in children)
        parts = [c.left_part(), None, c.right]
        if self.bar_first:
            parts = [parts[1], parts[0], parts[2]]
        return tuple({} if part is None else self._plan(part) for part in parts)

    def formal_step(self):
        return f"split pair(bar_first={self.bar_first},merge={self.merge})"

    def backward_map(self, c, objs, children=None):
        objs = list(objs)
        if self.bar_first:
            objs = [objs[1], objs[0], objs[2]]
        yield W("".join(objs))

    def forward_map(self, c, word, children=None):
        u, v = word.split("|", 1)
        parts = [W(u), W("|"), W(v)]
        if self.bar_first:
            parts = [parts[1], parts[0], parts[2]]
        return tuple(parts)


class LetterSym(_Opts, SymmetryStrategy[WC, W]):
    """Reverse the alphabet order: i-th letter <-> (k-1-i)-th letter."""

    def _tr(self, c):
        return str.maketrans("".join(c.alphabet), "".join(c.alphabet[::-1]))

    def decomposition_function(self, c):
        if c.right is not None or c.flags:
            return None
        t = self._tr(c)
        return (c.with_(prefix=c.prefix.translate(t), patterns=[p.translate(t) for p in c.patterns],
                        stats=[(k, letters.translate(t)) for k, letters in c.stats]),)

    def extra_parameters(self, c, children=None):
        return ({k: k for k in c.extra_parameters},)

    def formal_step(self):
        return "letter symmetry"

    def forward_map(self, c, word, children=None):
        return (W(word.translate(self._tr(c))),)

    def backward_map(self, c, objs, children=None):
        yield W(objs[0].translate(self._tr(c)))


class SymOrbit(StrategyFactory[WC]):
    """A symmetry factory yielding the whole orbit of the class under the letter symmetry as
    ready rules: the rule for the class itself and the rule that leads from its image back to
    it - a rule whose parent is not the class being expanded."""

    def __call__(self, c):
        sym = LetterSym()
        try:
            rule = sym(c)
            image = rule.children[0]
        except StrategyDoesNotApply:
            return
        yield rule
        if image != c:
            yield sym(image)

    def __str__(self):
        return "orbit under the letter symmetry"

    def __repr__(self):
        return "SymOrbit()"

    def to_jsonable(self):
        return super().to_jsonable()

    @classmethod
    def from_dict(cls, d):
        return cls()


class LetterSymNE(_Opts, DisjointUnionStrategy[WC, W]):
    """The letter symmetry as an ordinary two-way single-child rule that is *not* an equivalence
    (can_be_equivalent False) and whose child is workable: every class of the universe shares
    its equivalence label with its mirror image, both are expanded, and the parents of a label
    reach it through either of the two - the situation the equivalence-path variant of the
    parallel finder has to tell apart."""

    _tr = LetterSym._tr
    decomposition_function = LetterSym.decomposition_function
    extra_parameters = LetterSym.extra_parameters
    forward_map = LetterSym.forward_map
    backward_map = LetterSym.backward_map

    def __init__(self, **kw):
        kw.setdefault("possibly_empty", False)
        super().__init__(**kw)

    def can_be_equivalent(self):
        return False

    def formal_step(self):
        return "letter symmetry (two-way, not an equivalence)"


class _Inferral(_Opts, DisjointUnionStrategy[WC, W]):
    def __init__(self, **kw):
        kw.setdefault("possibly_empty", False)
        super().__init__(**kw)

    def forward_map(self, c, word, children=None):
        return (word,)


class MinimisePatterns(_Inferral):
    def decomposition_function(self, c):
        pats = [p for p in c.patterns if not any(q != p and q in p for q in c.patterns)]
        if len(pats) == len(c.patterns) or c.right is not None or c.flags:
            return None
        return (c.with_(patterns=pats),)

    def extra_parameters(self, c, children=None):
        return ({k: k for k in c.extra_parameters},)

    def formal_step(self):
        return "minimise patterns"


class MinimiseNE(MinimisePatterns):
    """The same rule, declared two-way but *not* an equivalence (can_be_equivalent False): the
    default rule database puts both classes under one equivalence label although the rule
    stays an ordinary single-child rule in specifications - the case the equivalence-path
    variant of the parallel finder exists for."""

    def can_be_equivalent(self):
        return False

    def formal_step(self):
        return "minimise patterns (two-way, not an equivalence)"


class DropDeadStat(_Inferral):
    """Drop statistics that count only letters forbidden as single-letter patterns."""

    @staticmethod
    def _dead(c):
        return [k for k, letters in c.stats if all(a in c.patterns for a in letters)]

    def decomposition_function(self, c):
        dead = self._dead(c)
        if not dead or c.is_empty() or c.right is not None or c.flags:
            return None
        return (c.with_(stats=[(k, l) for k, l in c.stats if k not in dead]),)

    def extra_parameters(self, c, children=None):
        dead = self._dead(c)
        return ({k: k for k in c.extra_parameters if k not in dead},)

    def formal_step(self):
        return "drop dead statistics"


class MergeStats(_Inferral):
    """Statistics with equal letter sets collapse onto the first of them."""

    @staticmethod
    def _plan(c):
        first, mapping = {}, {}
        for k, letters in c.stats:
            first.setdefault(letters, k)
            mapping[k] = first[letters]
        return mapping

    def decomposition_function(self, c):
        m = self._plan(c)
        if all(k == v for k, v in m.items()) or c.right is not None or c.flags:
            return None
        return (c.with_(stats=[(k, l) for k, l in c.stats if m[k] == k]),)

    def extra_parameters(self, c, children=None):
        return (self._plan(c),)

    def formal_step(self):
        return "merge equal statistics"


class RenameStats(_Inferral):
    """Same class with the statistics renamed k_i -> r_(n-1-i): the names change *and* the
    positions in the parameter tuples are reversed (names are kept sorted)."""

    @staticmethod
    def _plan(c):
        names = [k for k, _ in c.stats]
        if not names or not all(k.startswith("k_") for k in names):
            return None
        n = len(names)
        return {k: f"r_{n - 1 - i}" for i, k in enumerate(names)}

    def decomposition_function(self, c):
        plan = self._plan(c)
        if plan is None or c.right is not None or c.flags:
            return None
        return (c.with_(stats=[(plan[k], letters) for k, letters in c.stats]),)

    def extra_parameters(self, c, children=None):
        return (self._plan(c),)

    def formal_step(self):
        return "rename statistics"


class TrackStat(_Inferral):
    """The same class with one more statistic (t_0 = number of occurrences of the first
    letter): the child carries a parameter that the parent does not have, so the parent's
    terms and objects are the child's with that parameter summed out."""

    def decomposition_function(self, c):
        if c.right is not None or c.flags or c.just_prefix or any(k == "t_0" for k, _ in c.stats):
            return None
        return (c.with_(stats=list(c.stats) + [("t_0", c.alphabet[0])]),)

    def extra_parameters(self, c, children=None):
        return ({k: k for k in c.extra_parameters},)

    # the child cannot be computed from the parent (the extra statistic is lost going up):
    # not reversible, not two-way, and never treated as an equivalence
    def can_be_equivalent(self):
        return False

    def is_two_way(self, c):
        return False

    def is_reversible(self, c):
        return False

    def formal_step(self):
        return "track one more statistic"


class ExpandFactory(StrategyFactory[WC]):
    """mode 0: yields strategies; 1: yields ready rules; 2: additionally the Expand rule
    of the class whose prefix is one letter shorter (a rule whose parent is another class);
    3: yields a lazily built rule whose children are computed on demand;
    4: first the rule about the shorter-prefix class, then the strategy for the class itself;
    5: own strategy plus a two-step rule about the shorter-prefix class; 6: only the rule of the
    class it is a child of (own expansion for the empty prefix only); 7: a family of strategies
    of which the first applies to some classes only."""

    def __init__(self, mode=0, drop=False, plus=False, dead=False, order=0):
        self.mode, self.drop, self.plus = int(mode), bool(drop), bool(plus)
        self.dead, self.order = bool(dead), int(order)

    def __call__(self, c):
        if c.flags:
            return
        strat = Expand(drop=self.drop, plus=self.plus, dead=self.dead, order=self.order)
        if self.mode == 0:
            yield strat
            return
        if self.mode == 3:
            # a lazily built rule: whether the strategy applies is only found out when the
            # searcher asks for the children (StrategyDoesNotApply)
            from comb_spec_searcher.strategies.rule import Rule

            yield Rule(strat, c)
            yield Rule(RemoveFront(drop=self.drop), c)  # applies only to some classes
            # ... and a verification rule whose (empty) tuple of children is left to be computed:
            # asking for it tells whether the class is verified at all
            from comb_spec_searcher.strategies.rule import VerificationRule

            yield VerificationRule(StatAtom(), c)
            return
        if self.mode == 5:
            # the class's own strategy, and for the class with the prefix one letter shorter a
            # rule that nothing else in the pack produces (a two-step expansion on another letter):
            # that rule can be recomputed only by replaying the factory on this child
            yield strat
            if c.prefix and not c.just_prefix and not c.proper and len(c.alphabet) >= 2:
                other = c.with_(prefix=c.prefix[:-1], proper=False)
                which = (c.alphabet.index(c.prefix[-1]) + 1) % len(c.alphabet)
                yield ExpandTwice(which=which, drop=self.drop)(other)
            return
        if self.mode == 6:
            # classes are expanded "from above" only: a class with a non-empty prefix never gets
            # its own expansion, only the expansion rule of the class it is a child of (a rule
            # whose parent is another class) - a specification has to read such rules backwards
            if c.just_prefix:
                return
            above = None
            if c.proper and self.plus:
                above = strat(c.with_(proper=False))
            elif c.prefix and not c.proper:
                above = strat(c.with_(prefix=c.prefix[:-1], proper=self.plus))
            # (a factory only yields rules in which the class it was called on occurs: when the
            # class above has this one as a child in another form - statistics shed - the class
            # keeps its own expansion)
            if above is not None and c in above.children:
                yield above
            else:
                yield strat
            return
        if self.mode == 7:
            # a whole family of strategies, the searcher filters: the first one applies to some
            # classes only and comes *before* the one that works everywhere
            yield RemoveFront(drop=self.drop)
            yield strat
            return
        if self.mode == 4 and c.prefix and not c.just_prefix:
            # the rule about the other class comes first, the class's own strategy after it
            yield strat(c.with_(prefix=c.prefix[:-1], proper=False))
            yield strat
            return
        try:
            yield strat(c)
        except StrategyDoesNotApply:
            pass
        if self.mode == 2 and c.prefix and not c.just_prefix:
            other = c.with_(prefix=c.prefix[:-1], proper=False)
            yield strat(other)

    def __str__(self):
        return f"expand factory(mode={self.mode})"

    def __repr__(self):
        return (f"ExpandFactory(mode={self.mode}, drop={self.drop}, plus={self.plus}"
                f"{', dead=True' if self.dead else ''}{', order=%d' % self.order if self.order else ''})")

    def to_jsonable(self):
        d = super().to_jsonable()
        d.update(mode=self.mode, drop=self.drop, plus=self.plus, dead=self.dead, order=self.order)
        return d

    @classmethod
    def from_dict(cls, d):
        return cls(**d)


class Times(Constructor):
    """parent = m coloured copies of the child, one letter longer: a(n) = m * b(n-1), with the
    same parameters.  Used by a rule whose backward map has m pre-images."""

    def __init__(self, m):
        self.m = int(m)

    def can_be_equivalent(self):
        return False

    def get_equation(self, lhs_func, rhs_funcs):
        return sympy.Eq(lhs_func, self.m * sympy.var("x") * rhs_funcs[0])

    def reliance_profile(self, n, **parameters):
        raise NotImplementedError

    def get_terms(self, parent_terms, subterms, n):
        res = Counter()
        if n >= 1:
            for params, v in subterms[0](n - 1).items():
                if v:
                    res[params] += self.m * v
        return res

    def get_sub_objects(self, subobjs, n):
        if n >= 1:
            for params, objs in subobjs[0](n - 1).items():
                if objs:
                    yield params, (objs,)

    def random_sample_sub_objects(self, parent_count, subsamplers, subrecs, n, **parameters):
        return (subsamplers[0](n - 1, **parameters),)

    def equiv(self, other, data=None):
        return (isinstance(other, Times) and other.m == self.m, None)


class UnflagRule(NonBijectiveRule):
    """The library's form for rules whose forward map is not injective: the index of the
    pre-image (here: of the flag letter) makes bijections through the rule possible."""

    def _forward_order(self, obj, image, data=None):
        return self.comb_class.flags.index(obj[0])

    def _backward_order_item(self, idx, objs, data=None):
        return W(self.comb_class.flags[idx] + objs[0])


class Unflag(_Opts, Strategy[WC, W]):
    """{f_1..f_m} . C  ->  C : forget the flag letter.  Not a bijection on objects: every word
    of C has m pre-images, so the backward map yields several objects, the constructor counts
    them, and sampling must choose among them."""

    def __init__(self, **kw):
        super().__init__(ignore_parent=True, inferrable=False, possibly_empty=False, workable=True)

    def decomposition_function(self, c):
        if not c.flags:
            return None
        return (c.with_(flags=""),)

    def __call__(self, comb_class, children=None):
        if children is None:
            children = self.decomposition_function(comb_class)
            if children is None:
                raise StrategyDoesNotApply("Strategy does not apply")
        return UnflagRule(self, comb_class, children=children)

    def can_be_equivalent(self):
        return False

    def is_two_way(self, c):
        return False

    def is_reversible(self, c):
        return False

    def shifts(self, c, children=None):
        return (1,)

    def constructor(self, c, children=None):
        return Times(len(c.flags))

    def reverse_constructor(self, idx, c, children=None):
        raise NotImplementedError

    def backward_map(self, c, objs, children=None):
        for f in c.flags:
            yield W(f + objs[0])

    def forward_map(self, c, word, children=None):
        return (W(word[1:]),)

    def formal_step(self):
        return "forget the flag letter"


class StatAtom(VerificationStrategy[WC, W]):
    """Atoms, with or without statistics (the library's AtomStrategy refuses statistics)."""

    def __init__(self, ignore_parent=True):
        super().__init__(ignore_parent=ignore_parent)

    def verified(self, c):
        return c.just_prefix and c.right is None

    def get_terms(self, c, n):
        if n == len(c.prefix) and not c.is_empty():
            return Counter([c.get_parameters(c.prefix)])
        return Counter()

    def get_objects(self, c, n):
        res = defaultdict(list)
        if n == len(c.prefix) and not c.is_empty():
            res[c.get_parameters(c.prefix)].append(W(c.prefix))
        return res

    def get_genf(self, c, funcs=None):
        e = sympy.var("x") ** len(c.prefix)
        for k, v in zip(c.extra_parameters, c.get_parameters(c.prefix)):
            e *= sympy.var(k) ** v
        return e

    def random_sample_object_of_size(self, c, n, **parameters):
        return W(c.prefix)

    def formal_step(self):
        return "is atom (with statistics)"

    def pack(self, c):
        raise InvalidOperationError("no pack for atoms")

    @classmethod
    def from_dict(cls, d):
        return cls(**d)

    def __repr__(self):
        return "StatAtom()"


class PrefixVerified(VerificationStrategy[WC, W]):
    """Verifies every non-atom, non-empty class whose prefix has at least `minlen`
    letters; enumerates by brute force and offers a pack (atoms only) to expand it."""

    def __init__(self, minlen=1, ignore_parent=False, nest=0, nopack=0):
        self.minlen = int(minlen)
        # nopack = i > 0: classes whose prefix ends with the i-th letter of their alphabet are
        # verified without a pack (pack() raises the documented InvalidOperationError): one
        # strategy object, some of its classes expandable and some not
        self.nopack = int(nopack)
        # nest > 0: the pack offered for a verified class verifies in turn (prefixes one
        # letter longer, nest - 1 further levels), so expanding a verified class brings
        # new verified classes into the specification
        self.nest = int(nest)
        super().__init__(ignore_parent=ignore_parent)

    def verified(self, c):
        return ((not c.just_prefix) and c.right is None and not c.flags and (not c.is_empty())
                and len(c.prefix) >= self.minlen)

    def get_terms(self, c, n):
        return Counter(c.get_parameters(w) for w in c.objects_of_size(n))

    def get_objects(self, c, n):
        res = defaultdict(list)
        for w in c.objects_of_size(n):
            res[c.get_parameters(w)].append(w)
        return res

    def get_genf(self, c, funcs=None):
        if any(len(p) != 1 for p in c.patterns) or c.proper:
            raise NotImplementedError("no closed form for long patterns / proper classes")
        x = sympy.var("x")
        e = x ** len(c.prefix)
        for k, v in zip(c.extra_parameters, c.get_parameters(c.prefix)):
            e *= sympy.var(k) ** v
        step = sympy.Integer(0)
        for a in c.alphabet:
            if a in c.patterns:
                continue
            t = x
            for k, letters in c.stats:
                if a in letters:
                    t *= sympy.var(k)
            step += t
        return e / (1 - step)

    def random_sample_object_of_size(self, c, n, **parameters):
        objs = list(c.objects_of_size(n, **parameters))
        return random.choice(objs)

    def formal_step(self):
        return f"prefix of length >= {self.minlen} (brute force)"

    def pack(self, c):
        if self.nopack and c.prefix and c.prefix[-1] == c.alphabet[(self.nopack - 1) % len(c.alphabet)]:
            raise InvalidOperationError("no pack for this class")
        if self.nest > 0:
            return make_pack({"ver": f"prefix{self.minlen + 1}", "nest": self.nest - 1})
        return make_pack({"ver": "atom"})

    def to_jsonable(self):
        d = super().to_jsonable()
        d["minlen"] = self.minlen
        d["nest"] = self.nest
        d["nopack"] = self.nopack
        return d

    @classmethod
    def from_dict(cls, d):
        return cls(**d)

    def __repr__(self):
        return (f"PrefixVerified(minlen={self.minlen}{', nest=%d' % self.nest if self.nest else ''}"
                f"{', nopack=%d' % self.nopack if self.nopack else ''})")


class DepVerified(PrefixVerified):
    """PrefixVerified whose rules have a child: the verification of C(p) is declared to depend on
    the atom {p} (the documented special case of a verification rule with children)."""

    def decomposition_function(self, c):
        if not self.verified(c):
            return None
        return (c.with_(just_prefix=True, stats=atom_stats(c, c.prefix, False)),)

    def formal_step(self):
        return f"prefix of length >= {self.minlen} (brute force, depends on its atom)"

    def __repr__(self):
        return f"DepVerified(minlen={self.minlen})"


class SubAtom(AtomStrategy):
    """A user strategy deriving from the library's AtomStrategy without a from_dict of its own."""

    def formal_step(self):
        return "is atom (user subclass of the library's strategy)"

    def __repr__(self):
        return "SubAtom()"


class PackVerified(VerificationStrategy[WC, W]):
    """Verifies like PrefixVerified but brings no enumeration of its own: terms, objects,
    generating functions and samples come from the library's defaults, which search the class
    with the offered pack (VerificationStrategy.get_specification) every time they are asked."""

    def __init__(self, minlen=2, ignore_parent=False):
        self.minlen = int(minlen)
        super().__init__(ignore_parent=ignore_parent)

    def verified(self, c):
        return ((not c.just_prefix) and c.right is None and not c.flags and (not c.is_empty())
                and len(c.prefix) >= self.minlen)

    def pack(self, c):
        return make_pack({"ver": "atom"})

    def formal_step(self):
        return f"prefix of length >= {self.minlen} (searched with the offered pack)"

    def to_jsonable(self):
        d = super().to_jsonable()
        d["minlen"] = self.minlen
        return d

    @classmethod
    def from_dict(cls, d):
        return cls(**d)

    def __repr__(self):
        return f"PackVerified(minlen={self.minlen})"


# ----------------------------------------------------------------------------- packs

PACK_DEFAULTS = {
    "drop": False, "order": 0, "atom_last": False, "split": False, "plus": False, "swap": False,
    "sym": False, "inferral": [], "layout": "initial", "factory": None,
    "ver": "stat", "iterative": False, "nest": 0, "twice": [], "both": False, "merge": False, "dead": False,
}


def offered_packs(opts):
    """The packs that the verification strategies of make_pack(opts) can offer, nested
    ones included (for monitors that judge pack membership of re-applied rules)."""
    o = dict(PACK_DEFAULTS)
    o.update(opts or {})
    out = []
    if str(o["ver"]).startswith(("searched", "dep")):
        out.append(make_pack({"ver": "atom"}))
    if str(o["ver"]).startswith("prefix"):
        k, nest = int(o["ver"][6:]), int(o.get("nest", 0))
        while nest > 0:
            k, nest = k + 1, nest - 1
            out.append(make_pack({"ver": f"prefix{k}", "nest": nest}))
        out.append(make_pack({"ver": "atom"}))
    return out


def make_pack(opts=None):
    """Assemble a StrategyPack from an option vector (see PACK_DEFAULTS).

    layout: 'initial'  – RemoveFront initial, [[Expand]]
            'sets'     – no initial, [[RemoveFront], [Expand]]
            'same'     – no initial, [[RemoveFront, Expand]]
    factory: None or 0/1/2 – Expand replaced by ExpandFactory(mode)
    ver: 'stat' (StatAtom) | 'atom' (library AtomStrategy first, then StatAtom)
         | 'prefix1' / 'prefix2' (StatAtom + PrefixVerified(k))
    """
    o = dict(PACK_DEFAULTS)
    o.update(opts or {})
    remove = RemoveFront(drop=o["drop"], atom_last=o["atom_last"], split=o["split"], swap=o["swap"],
                         merge=o.get("merge", False))
    if o["factory"] is None:
        expand = Expand(drop=o["drop"], order=o["order"], plus=o["plus"], dead=o.get("dead", False))
    else:
        expand = ExpandFactory(mode=o["factory"], drop=o["drop"], plus=o["plus"], dead=o.get("dead", False),
                               order=o["order"])
    inf_map = {"minimise": MinimisePatterns, "minimise_ne": MinimiseNE, "deadstat": DropDeadStat, "merge": MergeStats,
               "rename": RenameStats, "track": TrackStat}
    inferral = [inf_map[name]() for name in o["inferral"]]
    split_pair = SplitPair(bar_first=o["order"] == 1, merge=o.get("merge", False))
    twice = [ExpandTwice(which=w, drop=o["drop"]) for w in o.get("twice") or ()]
    if o.get("both") and o["factory"] is None:
        # the one-step expansion in its other form as well (plain and plus-mode side by side)
        twice.append(Expand(drop=o["drop"], order=o["order"], plus=not o["plus"], dead=o.get("dead", False)))
    if o["layout"] == "initial":
        initial, sets = [Unflag(), split_pair, remove], [[expand] + twice]
    elif o["layout"] == "sets":
        initial, sets = [Unflag(), split_pair], [[remove], [expand] + twice]
    else:
        initial, sets = [Unflag(), split_pair], [[remove, expand] + twice]
    if o["sym"] == "ne":
        initial = initial + [LetterSymNE()]
    if o["ver"] == "stat":
        ver = [StatAtom()]
    elif o["ver"] == "atom":
        ver = [StatAtom()]
    elif o["ver"] == "libatom":
        ver = [AtomStrategy()]
    elif o["ver"] == "subatom":
        ver = [SubAtom()]
    elif str(o["ver"]).startswith("dep"):
        ver = [StatAtom(), DepVerified(int(o["ver"][3:]))]
    elif str(o["ver"]).startswith("searched"):
        ver = [StatAtom(), PackVerified(int(o["ver"][8:]))]
    else:
        ver = [StatAtom(), PrefixVerified(int(o["ver"][6:]), nest=int(o.get("nest", 0)),
                                          nopack=int(o.get("nopack", 0)))]
    return StrategyPack(
        initial_strats=initial,
        inferral_strats=inferral,
        expansion_strats=sets,
        ver_strats=ver,
        name="words:" + json.dumps(o, sort_keys=True),
        symmetries=([SymOrbit()] if o["sym"] == "orbit" else [LetterSym()]) if o["sym"] and o["sym"] != "ne" else [],
        iterative=o["iterative"],
    )
