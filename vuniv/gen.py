"""Case generators for the word universe: classes, pack option vectors, rule-database
flavours and search schedules.  Everything is a JSON-able descriptor; `build_*` turn
descriptors into live objects."""
from vuniv import words

DBS = ("base", "forget", "forest", "forest_norev")


def rand_class(rng, max_alpha=3, max_prefix=3, max_stats=3, bytes_p=0.15, atoms=False, pairs=0.12):
    k = rng.choice([1, 2, 2, 2, 2, 3][: 1 + 2 * max_alpha] or [2])
    k = min(k, max_alpha)
    alphabet = "abc"[:k]
    pats = set()
    for _ in range(rng.choice((0, 1, 1, 2, 2, 3))):
        length = rng.choice((1, 2, 2, 2, 3, 3, 4))
        pats.add("".join(rng.choice(alphabet) for _ in range(length)))
    nst = rng.choice((0, 0, 0, 1, 1, 2, 3))
    nst = min(nst, max_stats)
    stats = []
    for i in range(nst):
        letters = "".join(sorted(set(rng.choice(alphabet) for _ in range(rng.randint(1, 2)))))
        stats.append([f"k_{i}", letters])
    if nst >= 2 and rng.random() < 0.3:
        stats[1][1] = stats[0][1]  # duplicate statistic (MergeStats)
    if nst >= 1 and k >= 2 and rng.random() < 0.2:
        dead = rng.choice(alphabet)  # dead statistic (DropDeadStat)
        pats.add(dead)
        stats[-1][1] = dead
    if rng.random() < 0.06:
        pats.update(alphabet)  # dead end: no letter can ever be appended
    plen = rng.choice((0, 0, 0, 0, 1, 1, 2, 3))
    plen = min(plen, max_prefix)
    prefix = "".join(rng.choice(alphabet) for _ in range(plen))
    d = {
        "prefix": prefix, "patterns": sorted(pats), "alphabet": alphabet,
        "just_prefix": bool(atoms and rng.random() < 0.2),
        "stats": stats, "bytes": rng.random() < bytes_p,
        "proper": bool(rng.random() < 0.1),
        "right": None,
    }
    if pairs and rng.random() < pairs:
        # a pair class [A] | [B]: a product of two non-trivial factors
        rp = set()
        for _ in range(rng.choice((0, 1, 1, 2))):
            rp.add("".join(rng.choice(alphabet) for _ in range(rng.choice((1, 2, 2, 3)))))
        d["right"] = {"prefix": "".join(rng.choice(alphabet) for _ in range(rng.choice((0, 0, 1)))),
                      "patterns": sorted(rp), "alphabet": alphabet, "just_prefix": False,
                      "stats": stats, "proper": bool(rng.random() < 0.15), "right": None}
        if stats and rng.random() < 0.45:
            # sided statistics (counted in one word of the pair only), and often the same words
            # class on both sides: a product with two equal factors reached by different statistics
            if rng.random() < 0.6:
                # the same words class with the same statistics on both sides
                d["right"].update(prefix=d["prefix"], patterns=d["patterns"], proper=d["proper"])
                stats = [[f"k_{2 * i + j}", mark + l] for i, (_, l) in enumerate(stats[:2])
                         for j, mark in enumerate("<>")]
            else:
                stats = [[k, rng.choice(("<", ">", "<", ">", "")) + l] for k, l in stats]
            d["stats"] = stats
            d["right"]["stats"] = stats
    if d["bytes"] and not d["just_prefix"] and rng.random() < 0.4:
        d["mixed"] = True  # compressed classes with plain (uncompressed) atoms in one class database
    if d["right"] is None and not d["just_prefix"] and rng.random() < 0.07:
        # flagged class: every word preceded by one of 2-3 flag letters (non-bijective rule)
        d["flags"] = rng.choice(("xy", "xy", "xyz"))
    return d


def rand_pack(rng, cls=None, allow_iterative=True, allow_prefix_ver=True, allow_one_way=False,
              allow_same=False):
    o = {}
    o["drop"] = rng.random() < 0.4
    o["order"] = rng.choice((0, 0, 1, 2))
    o["atom_last"] = rng.random() < 0.3
    o["split"] = rng.random() < 0.3
    o["sym"] = rng.random() < 0.4
    if o["sym"] and rng.random() < 0.2:
        o["sym"] = "orbit"  # the symmetry comes from a factory that also yields the image's rule
    inf = []
    if rng.random() < 0.45:
        inf.append("minimise")
    if rng.random() < 0.35:
        inf.append("merge")
    if rng.random() < 0.3:
        inf.append("deadstat")
    if rng.random() < 0.3:
        inf.append("rename")
    rng.shuffle(inf)
    o["inferral"] = inf
    layouts = ["initial", "initial", "sets"] + (["same"] if allow_same else [])
    o["layout"] = rng.choice(layouts)
    o["factory"] = rng.choice((None, None, None, None, None, 0, 1, 2, 3, 4, 5, 6, 6, 7))
    has_stats = bool(cls and cls["stats"])
    vers = ["stat", "stat", "stat"]
    if not has_stats:
        vers += ["libatom", "subatom"]
    if allow_prefix_ver:
        vers += ["prefix1", "prefix2"]
    o["ver"] = rng.choice(vers)
    o["iterative"] = bool(allow_iterative and rng.random() < 0.15)
    o["plus"] = rng.random() < 0.35
    o["swap"] = rng.random() < 0.3
    # several rules per class: two-step expansions next to the plain one
    o["twice"] = rng.choice(([], [], [], [], [], [0], [1], [0, 1]))
    # several parent statistics on one child statistic in products; union children that do
    # not carry some of the parent's statistics
    o["merge"] = rng.random() < 0.3
    o["dead"] = rng.random() < 0.35
    if o["ver"].startswith("prefix") and rng.random() < 0.3:
        # one verification strategy object verifying several classes and counting each of them
        # through the library's defaults: a fresh search with the offered pack per request
        o["ver"] = "searched" + o["ver"][6:]
    return o


def rand_db(rng):
    return rng.choice(("base", "base", "forget", "forest", "forest", "forest_norev"))


def build_class(desc):
    return words.WC.from_descriptor(desc)


def build_pack(opts):
    return words.make_pack(opts)


def build_db(name):
    from comb_spec_searcher.rule_db import RuleDB, RuleDBForest, RuleDBForgetStrategy

    if name == "base":
        return RuleDB()
    if name == "forget":
        return RuleDBForgetStrategy()
    if name == "forest":
        return RuleDBForest()
    if name == "forest_norev":
        return RuleDBForest(reverse=False)
    raise ValueError(name)


def build_searcher(case):
    from comb_spec_searcher import CombinatorialSpecificationSearcher

    cls = build_class(case["cls"])
    pack = build_pack(case["pack"])
    return CombinatorialSpecificationSearcher(
        cls, pack, ruledb=build_db(case["db"]),
        expand_verified=bool(case.get("expand_verified", False)),
    )


def rand_search_case(rng, **kw):
    cls = rand_class(rng, **{k: v for k, v in kw.items() if k in ("max_alpha", "max_prefix", "max_stats", "bytes_p", "pairs")})
    pack = rand_pack(rng, cls, **{k: v for k, v in kw.items()
                                  if k in ("allow_iterative", "allow_prefix_ver", "allow_one_way", "allow_same")})
    case = {"cls": cls, "pack": pack, "db": rand_db(rng),
            "expand_verified": rng.random() < 0.15}
    if pack.get("factory") == 6:
        # classes expanded from above only: specifications need rules read backwards (forest
        # database), most often for start classes with a prefix
        if rng.random() < 0.7:
            case["db"] = "forest"
        if not cls["prefix"] and not cls["just_prefix"] and rng.random() < 0.7:
            cls["prefix"] = "".join(rng.choice(cls["alphabet"]) for _ in range(rng.choice((1, 1, 2))))
    return case
