"""W4b: classes whose byte form is an arbitrary byte string.

`Blob(payload)` stands for "all ASCII words starting with the latin-1 string `payload`" (empty
as soon as the prefix has a non-ASCII letter).  Its to_bytes() is the payload itself, so any
byte string is some class's byte form - among them byte strings that are zlib streams, in
particular the compressed form of *another* class of the same database, truncated streams
and strings that only start like one.  A class database has to keep all of them apart."""
import zlib

from comb_spec_searcher import CombinatorialClass


class Blob(CombinatorialClass):
    def __init__(self, payload):
        self.payload = bytes(payload)

    def is_empty(self):
        return any(b > 127 for b in self.payload)

    def to_bytes(self):
        return self.payload

    @classmethod
    def from_bytes(cls, b):
        return cls(b)

    def to_jsonable(self):
        d = super().to_jsonable()
        d["payload"] = self.payload.hex()
        return d

    @classmethod
    def from_dict(cls, d):
        return cls(bytes.fromhex(d["payload"]))

    def __eq__(self, other):
        return isinstance(other, Blob) and self.payload == other.payload

    def __hash__(self):
        return hash(self.payload)

    def __repr__(self):
        return f"Blob({self.payload!r})"

    def __str__(self):
        return repr(self)


def rand_pool(rng):
    """Descriptors {"blob": hex}: short and long (compressible) plain strings, and around them
    the zlib streams of some of them (several levels), streams of streams, truncated streams
    and junk that begins like a stream."""
    plain = []
    for _ in range(rng.randint(3, 10)):
        r = rng.random()
        if r < 0.4:
            plain.append("".join(rng.choice("ab") for _ in range(rng.randint(0, 4))).encode())
        elif r < 0.8:
            plain.append(("".join(rng.choice("abc") for _ in range(rng.randint(1, 4))) * rng.randint(8, 40)).encode())
        else:
            plain.append(bytes(rng.randrange(256) for _ in range(rng.randint(1, 12))))
    pool = list(plain)
    for _ in range(rng.randint(2, 10)):
        x = rng.choice(pool)
        r = rng.random()
        if r < 0.5:
            pool.append(zlib.compress(x, 9))
        elif r < 0.7:
            pool.append(zlib.compress(x, rng.choice((1, 6))))
        elif r < 0.85:
            pool.append(zlib.compress(x, 9)[:-rng.randint(1, 3)])
        else:
            pool.append(b"x\xda" + bytes(rng.randrange(256) for _ in range(rng.randint(0, 8))))
    rng.shuffle(pool)
    return [{"blob": p.hex()} for p in pool]
