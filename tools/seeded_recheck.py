#!/venv/bin/python
"""Re-run the checks against every seeded change (scratch copies, quick tier) and update
caught_by / checks_run in seeded/<id>/meta.json.

    tools/seeded_recheck.py [--only ID[,ID]] [--jobs 3] [--workers 5]
"""
import argparse
import concurrent.futures
import glob
import json
import os
import subprocess
import sys

HERE = os.path.dirname(os.path.abspath(__file__))
VERIF = os.path.dirname(HERE)
sys.path.insert(0, os.path.join(VERIF, "mutants"))
import drill  # noqa: E402


def one(path):
    meta = json.load(open(path))
    d = os.path.dirname(path)
    if meta.get("superseded_by_fix"):
        # no longer breaks the property on the repaired tree (see its note): kept for the record
        return meta["id"], ["(superseded by fix %s)" % meta["superseded_by_fix"]], None
    props = list(meta.get("checks_run") or [meta["breaks_property"]])
    if meta["breaks_property"] not in props:
        props.insert(0, meta["breaks_property"])
    copy = drill.make_copy()
    try:
        p = subprocess.run(["patch", "-p1", "-s", "-i", os.path.join(d, "patch.diff")], cwd=copy,
                           capture_output=True, text=True)
        if p.returncode:
            return meta["id"], None, "patch does not apply: " + (p.stdout + p.stderr)[-200:]
        res = {}
        for prop in props:
            rc, lines, _ = drill.run_check(copy, prop, "quick", 0)
            res[prop] = {"exit": rc, "first_lines": [ln[:300] for ln in lines[:3]]}
    finally:
        import shutil

        shutil.rmtree(copy, ignore_errors=True)
    meta["checks_run"] = res
    meta["caught_by"] = [k for k, v in res.items() if v["exit"] == 1]
    meta["rechecked_at_verif_commit"] = subprocess.run(
        ["git", "-C", VERIF, "log", "--format=%h", "-1"], capture_output=True, text=True).stdout.strip()
    json.dump(meta, open(path, "w"), indent=1)
    return meta["id"], meta["caught_by"], None


def main():
    ap = argparse.ArgumentParser()
    ap.add_argument("--only")
    ap.add_argument("--jobs", type=int, default=3)
    ap.add_argument("--workers", type=int, default=5)
    args = ap.parse_args()
    drill.ARGS = argparse.Namespace(workers=args.workers)
    paths = sorted(glob.glob(os.path.join(VERIF, "seeded", "*", "meta.json")))
    if args.only:
        ids = set(args.only.split(","))
        paths = [p for p in paths if os.path.basename(os.path.dirname(p)) in ids]
    bad = 0
    with concurrent.futures.ThreadPoolExecutor(max_workers=args.jobs) as ex:
        for sid, caught, err in ex.map(one, paths):
            if err or not caught:
                bad += 1
            print(f"{sid:50s} {'ERROR ' + err if err else ('caught by ' + ','.join(caught) if caught else 'MISSED')}")
            sys.stdout.flush()
    print(f"{len(paths) - bad}/{len(paths)} seeded changes caught")
    return 1 if bad else 0


if __name__ == "__main__":
    sys.exit(main())
