#!/usr/bin/env python3
"""Print the markdown table of seeded changes (seeded/*/meta.json) for DESIGN.md section 9."""
import glob
import json
import os

HERE = os.path.dirname(os.path.dirname(os.path.abspath(__file__)))
print("| seeded change | breaks | site | caught by (quick tier) | missed at first? |")
print("|---|---|---|---|---|")
for path in sorted(glob.glob(os.path.join(HERE, "seeded", "*", "meta.json"))):
    m = json.load(open(path))
    files = ", ".join(os.path.basename(f) for f in (m.get("files_changed") or []))
    note = (m.get("note") or "").strip()
    first = "no"
    if "missed" in note:
        first = note
    print(f"| `{m['id']}` | {m['breaks_property']} | {files} | {(', '.join(m['caught_by']) or '**none**') + (' (until fix ' + m['superseded_by_fix'] + ')' if m.get('superseded_by_fix') else '')} | {first} |")
