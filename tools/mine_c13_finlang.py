#!/venv/bin/python
"""Mine finite-language inputs for C13 on which the first search of the parallel finder meets a
pair of labels again after it failed to match it (under another parent): the inputs on which
whatever the finder remembers about failed pairs decides the answer.  The selected descriptors
are written to corpus/c13_finlang.json and replayed by the C13 driver in both tiers.

usage: tools/mine_c13_finlang.py [--seed S] [--cases N] [--keep K]
"""
import argparse
import json
import os
import signal
import sys
from concurrent.futures import ProcessPoolExecutor

HOME = os.path.dirname(os.path.dirname(os.path.abspath(__file__)))
sys.path[:0] = [HOME, os.path.join(HOME, ".deps")]
os.environ["VERIF_C13_KINDS"] = "finlang"


def probe(case):
    from comb_spec_searcher import bijection as B

    from vuniv import finlang

    state = {"again": 0}
    orig = B.ParallelSpecFinder._base_case

    def base_case(self, id1, id2, matching_info, visited):
        if (id1, id2) in visited and (id1, id2) not in matching_info:
            state["again"] += 1
        return orig(self, id1, id2, matching_info, visited)

    B.ParallelSpecFinder._base_case = base_case
    signal.signal(signal.SIGALRM, lambda *a: (_ for _ in ()).throw(TimeoutError()))
    signal.alarm(60)
    try:
        s1 = finlang.make_searcher(case["lang1"], case["side1"]["exp"], case["side1"]["sym"])
        s2 = finlang.make_searcher(case["lang2"], case["side2"]["exp"], case["side2"]["sym"])
        cls = B.ParallelSpecFinder if case["variant"] == "plain" else B.EqPathParallelSpecFinder
        out = cls(s1, s2).find()
    except Exception:  # noqa: BLE001
        return None
    finally:
        signal.alarm(0)
        B.ParallelSpecFinder._base_case = orig
    return {"again": state["again"], "found": out is not None}


def main():
    ap = argparse.ArgumentParser()
    ap.add_argument("--seed", type=int, default=202)
    ap.add_argument("--cases", type=int, default=6000)
    ap.add_argument("--keep", type=int, default=80)
    a = ap.parse_args()
    import logging

    import logzero

    logzero.loglevel(logging.ERROR)
    from vdrive import c13

    c13.SIZES = dict(c13.SIZES, thorough=a.cases)
    c13.corpus_cases = lambda: []
    cases = list(c13.gen_cases("thorough", a.seed))
    with ProcessPoolExecutor(14) as ex:
        res = list(ex.map(probe, cases, chunksize=16))
    good = [(r["again"], r["found"], c) for r, c in zip(res, cases) if r and r["again"]]
    print(f"{len(cases)} cases, {sum(1 for r in res if r is None)} refused/failed, "
          f"{len(good)} meet a failed pair again, {sum(1 for g in good if g[1])} of them return a pair")
    good.sort(key=lambda g: (not g[1], -g[0]))
    keep = []
    for again, found, c in good[: a.keep]:
        c = dict(c, mined={"seed": a.seed, "failed_pairs_met_again": again, "returns_pair": found})
        c.pop("id", None)
        keep.append(c)
    path = os.path.join(HOME, "corpus", "c13_finlang.json")
    with open(path, "w") as f:
        json.dump(keep, f, indent=0, sort_keys=True)
    print("wrote", len(keep), "cases to", path)


if __name__ == "__main__":
    main()
