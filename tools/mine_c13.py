#!/venv/bin/python
"""Mine inputs for C13 on which the equivalence-path verdict of the second search really
depends on its context: the same pair of labels with the same pair of chosen rules is judged
from two different contexts (grandparent labels, their rules, child positions) and the two
verdicts - each computed afresh, without the finder's memo - differ.  Those are the inputs on
which any coarser memo key can change the answer of find().  The selected case descriptors are
written to corpus/c13_context.json and replayed by the C13 driver in both tiers.

usage: tools/mine_c13.py [--seed S] [--cases N] [--keep K]
"""
import argparse
import json
import os
import signal
import sys
from concurrent.futures import ProcessPoolExecutor

HOME = os.path.dirname(os.path.dirname(os.path.abspath(__file__)))
sys.path[:0] = [HOME, os.path.join(HOME, ".deps")]
os.environ["VERIF_C13_KINDS"] = "symne"


def probe(case):
    from collections import defaultdict

    from comb_spec_searcher import bijection as B

    from vuniv import gen

    seen = defaultdict(dict)
    orig = B.EqPathParallelSpecFinder._eq_path_matches

    def w(self, id1, id2, pid1, pid2, idx1, idx2, sp1, sp2, cache):
        fresh = orig(self, id1, id2, pid1, pid2, idx1, idx2, sp1, sp2,
                     defaultdict(lambda: defaultdict(dict)))
        seen[(id1, id2, sp1[id1], sp2[id2])][(pid1, pid2, idx1, idx2, sp1.get(pid1), sp2.get(pid2))] = fresh
        return orig(self, id1, id2, pid1, pid2, idx1, idx2, sp1, sp2, cache)

    B.EqPathParallelSpecFinder._eq_path_matches = w
    signal.signal(signal.SIGALRM, lambda *a: (_ for _ in ()).throw(TimeoutError()))
    signal.alarm(60)
    try:
        s1 = gen.build_searcher({"cls": case["c1"], "pack": case["p1"], "db": "base"})
        s2 = gen.build_searcher({"cls": case["c2"], "pack": case["p2"], "db": "base"})
        out = B.EqPathParallelSpecFinder(s1, s2).find()
    except Exception:  # noqa: BLE001
        return None
    finally:
        signal.alarm(0)
        B.EqPathParallelSpecFinder._eq_path_matches = orig
    score = 0
    for ctxs in seen.values():
        if len(set(ctxs.values())) == 2:
            # contexts that differ only in the grandparents' rules / only in the positions
            score += 1
    return {"score": score, "found": out is not None, "lookups": sum(map(len, seen.values()))}


def main():
    ap = argparse.ArgumentParser()
    ap.add_argument("--seed", type=int, default=101)
    ap.add_argument("--cases", type=int, default=3000)
    ap.add_argument("--keep", type=int, default=120)
    a = ap.parse_args()
    import logging

    import logzero

    logzero.loglevel(logging.ERROR)
    from vdrive import c13

    c13.SIZES = dict(c13.SIZES, thorough=a.cases)
    cases = list(c13.gen_cases("thorough", a.seed))
    with ProcessPoolExecutor(14) as ex:
        res = list(ex.map(probe, cases, chunksize=8))
    good = [(r["score"], r["found"], c) for r, c in zip(res, cases) if r and r["score"]]
    print(f"{len(cases)} cases, {sum(1 for r in res if r is None)} failed/timeouts, "
          f"{len(good)} with context-dependent verdicts, {sum(1 for g in good if g[1])} of them return a pair")
    # prefer the ones that return a pair (a wrong acceptance shows in the answer), then score
    good.sort(key=lambda g: (not g[1], -g[0]))
    keep = []
    for score, found, c in good[: a.keep]:
        c = dict(c, kind="context", mined={"seed": a.seed, "score": score, "returns_pair": found})
        c.pop("id", None)
        keep.append(c)
    path = os.path.join(HOME, "corpus", "c13_context.json")
    with open(path, "w") as f:
        json.dump(keep, f, indent=0, sort_keys=True)
    print("wrote", len(keep), "cases to", path)


if __name__ == "__main__":
    main()
