#!/usr/bin/env python3
"""Regenerate MANIFEST.json from the driver modules that exist (vdrive/cNN.py).
Properties without a driver are listed under not_applicable with the reason held in
NOT_CLAIMED below.  Validates against /root/.vp/MANIFEST.schema.json when available."""
import ast
import json
import os
import sys

HERE = os.path.dirname(os.path.dirname(os.path.abspath(__file__)))

NOT_CLAIMED = {}
DEFAULT_REASON = ("no check is registered for this property in this revision of /verif "
                  "(the monitor is designed in DESIGN.md section 4 but not built yet)")


def driver_meta(path):
    """Read the upper-case string/list constants of a driver without importing it."""
    tree = ast.parse(open(path).read())
    meta = {}
    for node in tree.body:
        if isinstance(node, ast.Assign) and len(node.targets) == 1 and isinstance(node.targets[0], ast.Name):
            name = node.targets[0].id
            if name.isupper():
                try:
                    meta[name] = ast.literal_eval(node.value)
                except Exception:  # noqa: BLE001
                    pass
    return meta


def main():
    props = [json.loads(l)["id"] for l in open(os.path.join(HERE, "properties.jsonl"))]
    checks, engines, missing = [], [], []
    for pid in props:
        path = os.path.join(HERE, "vdrive", f"{pid.lower()}.py")
        if not os.path.exists(path):
            missing.append(pid)
            continue
        m = driver_meta(path)
        checks.append({
            "property_id": pid,
            "quick_cmd": f"./check {pid} --tier quick",
            "thorough_cmd": f"./check {pid} --tier thorough",
            "evidence_file": f"evidence/{pid}.json",
            "replay_cmd_template": f"./check {pid} --replay {{path}}",
            "engine": "vdrive",
            "level_claimed": {
                "category": m.get("LEVEL", "exploration"),
                "text": m.get("LEVEL_TEXT", m.get("RULE", "")),
                "design_ref": m.get("DESIGN_REF", f"DESIGN.md section 4, {pid}"),
            },
            "level_note": m.get("LEVEL_NOTE", "; ".join(m.get("ASSUMPTIONS", []))),
            "technique": m.get("TECHNIQUE", "runtime monitoring: oracle over observed executions"),
        })
    manifest = {
        "version": 1,
        "setup_cmd": "./setup.sh",
        "hooks": {
            "guard": "COMB_SPEC_SEARCHER_VERIF",
            "enable": "./check exports COMB_SPEC_SEARCHER_VERIF=1 and puts the working tree of /repo first on "
                      "PYTHONPATH; monitors are attached from /verif/vmon at import time (icontract contracts, "
                      "recording wrappers, virtual clock / scripted RNG substitution) - no hook lives in /repo",
            "baseline_off_cmd": "cd /repo && /venv/bin/python -m pytest -ra -q -p no:cacheprovider --timeout=900 "
                                "--continue-on-collection-errors",
            "source_commits": [],
            "add_only": True,
        },
        "engines": [
            {"name": "vdrive", "path": "vdrive/core.py",
             "serves_properties": [c["property_id"] for c in checks],
             "kind_free_text": "sharded case runner: generated workloads are executed on the real code under "
                               "monitors (icontract contracts, recording wrappers, reference-model checkers); "
                               "verdicts are three-valued with floors on what the monitors observed"}
        ],
        "checks": checks,
        "not_applicable": [
            {"property_id": pid, "reason": NOT_CLAIMED.get(pid, DEFAULT_REASON)} for pid in missing
        ],
        "notes": "Known findings (genuine defects recorded, and 'fixed:' lines for repaired ones) are in "
                 "known_findings.json; seeded faults used to validate the monitors are in mutants/ and seeded/.",
    }
    fixed = os.path.join(HERE, "known_findings.json")
    if os.path.exists(fixed):
        kf = json.load(open(fixed))
        manifest["hooks"]["source_commits"] = []
    out = os.path.join(HERE, "MANIFEST.json")
    json.dump(manifest, open(out, "w"), indent=1)
    try:
        sys.path.append(os.path.join(HERE, ".deps"))
        import jsonschema

        jsonschema.validate(manifest, json.load(open("/root/.vp/MANIFEST.schema.json")))
        print("MANIFEST.json valid;", len(checks), "checks,", len(missing), "not claimed")
    except ImportError:
        print("jsonschema not importable; wrote without validating")


if __name__ == "__main__":
    main()
