#!/venv/bin/python
"""Validate a seeded change and run checks against it, all on scratch copies.

    tools/seeded.py <dir-with-patch.diff-and-demo.py> --prop C07[,C01] [--tier quick] [--seed 0]

Steps (each on a fresh scratch copy of /repo's working tree, deleted afterwards):
  1. the patch applies; the repository's own tests pass with it
  2. the demonstration fails with the change and passes without it
  3. the named checks are run against the changed copy (VERIF_REPO); exit 1 = caught
Prints a JSON summary (also usable to fill seeded/<id>/meta.json)."""
import argparse
import json
import os
import shutil
import subprocess
import sys

HERE = os.path.dirname(os.path.abspath(__file__))
VERIF = os.path.dirname(HERE)
sys.path.insert(0, os.path.join(VERIF, "mutants"))
import drill  # noqa: E402


def run_demo(demo, root):
    env = dict(os.environ, PYTHONPATH=root, PYTHONDONTWRITEBYTECODE="1")
    env.pop("COMB_SPEC_SEARCHER_VERIF", None)
    try:
        p = subprocess.run(["/venv/bin/python", demo], cwd=root, env=env, capture_output=True, text=True, timeout=900)
        return p.returncode, (p.stdout + p.stderr)[-400:]
    except subprocess.TimeoutExpired:
        return 124, "timeout"


def main():
    ap = argparse.ArgumentParser()
    ap.add_argument("dir")
    ap.add_argument("--prop", required=True)
    ap.add_argument("--tier", default="quick")
    ap.add_argument("--seed", type=int, default=0)
    ap.add_argument("--workers", type=int, default=8)
    ap.add_argument("--skip-tests", action="store_true")
    args = ap.parse_args()
    d = os.path.abspath(args.dir)
    patch, demo = os.path.join(d, "patch.diff"), os.path.join(d, "demo.py")
    out = {"dir": d}
    clean = drill.make_copy()
    changed = drill.make_copy()
    try:
        p = subprocess.run(["patch", "-p1", "-s", "-i", patch], cwd=changed, capture_output=True, text=True)
        out["patch_applies"] = p.returncode == 0
        if p.returncode:
            out["patch_error"] = (p.stdout + p.stderr)[-400:]
            print(json.dumps(out, indent=1))
            return 2
        if not args.skip_tests:
            ok, tail = drill.run_tests(changed)
            out["tests_pass_with_change"] = ok
            out["tests"] = tail
        if os.path.exists(demo):
            rc1, t1 = run_demo(demo, changed)
            rc0, t0 = run_demo(demo, clean)
            out["demo_fails_with_change"] = rc1 != 0
            out["demo_passes_without"] = rc0 == 0
            out["demo_tail_with_change"] = t1[-200:]
            if rc0 != 0:
                out["demo_tail_without"] = t0[-300:]
        out["checks"] = {}
        drill.ARGS = argparse.Namespace(workers=args.workers)
        for prop in args.prop.split(","):
            rc, lines, tail = drill.run_check(changed, prop, args.tier, args.seed)
            out["checks"][prop] = {"rc": rc, "lines": [ln[:300] for ln in lines[:5]]}
    finally:
        shutil.rmtree(clean, ignore_errors=True)
        shutil.rmtree(changed, ignore_errors=True)
    print(json.dumps(out, indent=1))
    return 0


if __name__ == "__main__":
    sys.exit(main())
