#!/bin/bash
# tools/sweep.sh <tier> <seed> [props...]  - run checks, one summary line each
tier=${1:-quick}; seed=${2:-0}; shift 2 || true
props=${@:-C01 C02 C03 C04 C05 C06 C07 C08 C09 C10 C11 C12 C13 C14 C15 C16 C17 C18 C19 C20}
out=${VERIF_OUT:-/tmp/verif-sweep-$tier-$seed}
mkdir -p $out
for p in $props; do
  s=$(date +%s)
  VERIF_OUT=$out VERIF_SEED=$seed ./check $p --tier $tier > $out/$p.log 2>&1; rc=$?
  e=$(( $(date +%s) - s ))
  echo "$p seed=$seed tier=$tier rc=$rc ${e}s $(grep -E '^(VIOLATION|INCONCLUSIVE|BROKEN|KNOWN-FINDING)' $out/$p.log | cut -c1-150 | head -2 | tr '\n' '|')"
done
