#!/venv/bin/python
"""Mine inputs for C13 on which the validation added by fix 5f70813 decides the answer: the
second search of the parallel finder ends with label maps in which some pair of rules was never
matched (the finder then answers 'nothing found'), or the atom validation of the
equivalence-path variant meets such a pair.  The descriptors are appended to
corpus/c13_finlang.json (finite languages) / corpus/c13_context.json (words).

usage: tools/mine_c13_guard.py [--seed S] [--cases N] [--keep K] [--kinds finlang]
"""
import argparse
import json
import os
import signal
import sys
from concurrent.futures import ProcessPoolExecutor

HOME = os.path.dirname(os.path.dirname(os.path.abspath(__file__)))
sys.path[:0] = [HOME, os.path.join(HOME, ".deps")]


def probe(case):
    from comb_spec_searcher import bijection as B

    from vuniv import finlang, gen

    state = {"walk_rejects": 0, "atom_rejects": 0}
    orig_walk = B.ParallelSpecFinder._assignment_is_matched
    orig_atoms = B.EqPathParallelSpecFinder._validate_atoms_for_existing_entries

    def walk(self, matching_info, sp1, sp2):
        res = orig_walk(self, matching_info, sp1, sp2)
        if not res:
            state["walk_rejects"] += 1
        return res

    def atoms(self, id1, id2, sp1, sp2, matching_info, mem):
        c1, c2 = sp1.get(id1), sp2.get(id2)
        if (id1, id2) not in mem and c1 is not None and c2 is not None and not (c1 == () == c2) \
                and matching_info.get((id1, id2), {}).get((c1, c2)) is None:
            state["atom_rejects"] += 1
        return orig_atoms(self, id1, id2, sp1, sp2, matching_info, mem)

    B.ParallelSpecFinder._assignment_is_matched = walk
    B.EqPathParallelSpecFinder._validate_atoms_for_existing_entries = atoms
    signal.signal(signal.SIGALRM, lambda *a: (_ for _ in ()).throw(TimeoutError()))
    signal.alarm(60)
    try:
        if case["kind"] == "finlang":
            s1 = finlang.make_searcher(case["lang1"], case["side1"]["exp"], case["side1"]["sym"])
            s2 = finlang.make_searcher(case["lang2"], case["side2"]["exp"], case["side2"]["sym"])
        else:
            s1 = gen.build_searcher({"cls": case["c1"], "pack": case["p1"], "db": "base"})
            s2 = gen.build_searcher({"cls": case["c2"], "pack": case["p2"], "db": "base"})
        cls = B.ParallelSpecFinder if case["variant"] == "plain" else B.EqPathParallelSpecFinder
        cls(s1, s2).find()
    except Exception:  # noqa: BLE001
        return None
    finally:
        signal.alarm(0)
        B.ParallelSpecFinder._assignment_is_matched = orig_walk
        B.EqPathParallelSpecFinder._validate_atoms_for_existing_entries = orig_atoms
    return state


def main():
    ap = argparse.ArgumentParser()
    ap.add_argument("--seed", type=int, default=303)
    ap.add_argument("--cases", type=int, default=8000)
    ap.add_argument("--keep", type=int, default=24)
    ap.add_argument("--kinds", default="finlang")
    a = ap.parse_args()
    os.environ["VERIF_C13_KINDS"] = "" if a.kinds == "all" else a.kinds
    import logging

    import logzero

    logzero.loglevel(logging.ERROR)
    from vdrive import c13

    c13.ONLY_KINDS = () if a.kinds == "all" else tuple(a.kinds.split(","))
    if a.kinds == "all":
        c13.corpus_cases = lambda: []
    c13.SIZES = dict(c13.SIZES, thorough=a.cases)
    cases = list(c13.gen_cases("thorough", a.seed))
    with ProcessPoolExecutor(14) as ex:
        res = list(ex.map(probe, cases, chunksize=16))
    walk = [c for r, c in zip(res, cases) if r and r["walk_rejects"]]
    atom = [c for r, c in zip(res, cases) if r and r["atom_rejects"] and not r["walk_rejects"]]
    print(f"{len(cases)} cases: final validation rejects in {len(walk)}, atom validation meets unmatched rules in "
          f"{len(atom)} more")
    target = "c13_finlang.json" if a.kinds == "finlang" else "c13_context.json"
    path = os.path.join(HOME, "corpus", target)
    with open(path) as f:
        corpus = json.load(f)
    for why, found in (("the final validation of the chosen rules rejects", walk),
                       ("the atom validation meets a pair of rules never matched", atom)):
        for c in found[: a.keep]:
            c = dict(c, mined={"seed": a.seed, "why": why})
            c.pop("id", None)
            corpus.append(c)
    with open(path, "w") as f:
        json.dump(corpus, f, indent=0, sort_keys=True)
    print("corpus", target, "now has", len(corpus), "cases")


if __name__ == "__main__":
    main()
