#!/usr/bin/env python3
"""Rebuild section 9 of DESIGN.md from tools/sec9.md.in (SEEDED_TABLE -> tools/seeded_table.py)."""
import os
import subprocess

HERE = os.path.dirname(os.path.dirname(os.path.abspath(__file__)))
sec = open(os.path.join(HERE, "tools", "sec9.md.in")).read()
table = subprocess.run(["python3", os.path.join(HERE, "tools", "seeded_table.py")], capture_output=True, text=True).stdout
sec = sec.replace("SEEDED_TABLE", table.rstrip("\n"))
path = os.path.join(HERE, "DESIGN.md")
s = open(path).read()
s = s[: s.index("\n## 9. As built") + 1]
open(path, "w").write(s + sec)
