#!/venv/bin/python
"""Import a seeded change produced by an independent sub-agent into /verif/seeded/<id>/:
validates it (tools/seeded.py: patch applies, repository tests pass, demonstration fails
with / passes without), runs the named checks against it and writes meta.json.

    tools/seeded_import.py /tmp/seed/out-C07 C07-objects-cache-size --prop C07[,C01] [--tier quick]
"""
import argparse
import json
import os
import shutil
import subprocess
import sys

HERE = os.path.dirname(os.path.abspath(__file__))
VERIF = os.path.dirname(HERE)


def main():
    ap = argparse.ArgumentParser()
    ap.add_argument("src")
    ap.add_argument("id")
    ap.add_argument("--prop", required=True)
    ap.add_argument("--tier", default="quick")
    ap.add_argument("--workers", type=int, default=8)
    ap.add_argument("--note", default="")
    args = ap.parse_args()
    dst = os.path.join(VERIF, "seeded", args.id)
    os.makedirs(dst, exist_ok=True)
    for name in ("patch.diff", "demo.py"):
        shutil.copy(os.path.join(args.src, name), os.path.join(dst, name))
    agent_meta = {}
    try:
        agent_meta = json.load(open(os.path.join(args.src, "meta.json")))
    except Exception:  # noqa: BLE001
        pass
    p = subprocess.run([os.path.join(HERE, "seeded.py"), dst, "--prop", args.prop, "--tier", args.tier,
                        "--workers", str(args.workers)], capture_output=True, text=True)
    res = json.loads(p.stdout)
    caught = [k for k, v in res["checks"].items() if v["rc"] == 1]
    meta = {
        "id": args.id,
        "breaks_property": agent_meta.get("property", args.prop.split(",")[0]),
        "origin": "independent sub-agent given only the property text and a scratch worktree of /repo",
        "files_changed": agent_meta.get("files_changed"),
        "what_breaks": agent_meta.get("what_breaks"),
        "needs_to_manifest": agent_meta.get("needs_to_manifest"),
        "validated": {
            "patch_applies_to_repo_head": res.get("patch_applies"),
            "repository_tests_pass_with_change": res.get("tests_pass_with_change"),
            "repository_tests": res.get("tests"),
            "demo_fails_with_change": res.get("demo_fails_with_change"),
            "demo_passes_without": res.get("demo_passes_without"),
            "how": "tools/seeded.py on scratch copies of /repo's working tree (never applied in /repo)",
        },
        "checks_run": {k: {"exit": v["rc"], "first_lines": v["lines"][:3]} for k, v in res["checks"].items()},
        "tier": args.tier,
        "caught_by": caught,
        "note": args.note,
    }
    json.dump(meta, open(os.path.join(dst, "meta.json"), "w"), indent=1)
    print(args.id, "caught by", caught or "NONE", "| valid:",
          all(meta["validated"][k] for k in ("patch_applies_to_repo_head", "repository_tests_pass_with_change",
                                            "demo_fails_with_change", "demo_passes_without")))


if __name__ == "__main__":
    main()
